//! Opaque-error model of the `anyhow` API subset used by the emulator.
//!
//! Only Ok/Err-ness is modelled: an `Error` carries no message, cause or
//! backtrace. Message arguments are still *evaluated* (through `format!`), and
//! `with_context` closures still run on the error path, exactly as in the
//! real crate, so arithmetic inside messages stays visible to the checker.

use core::fmt;

pub struct Error {
    _opaque: (),
}

pub type Result<T, E = Error> = core::result::Result<T, E>;

impl Error {
    #[inline]
    pub fn new_opaque() -> Self {
        Error { _opaque: () }
    }
    pub fn msg<M>(_message: M) -> Self
    where
        M: fmt::Display + fmt::Debug + Send + Sync + 'static,
    {
        Error::new_opaque()
    }
    pub fn context<C>(self, _context: C) -> Self
    where
        C: fmt::Display + Send + Sync + 'static,
    {
        self
    }
}

impl fmt::Debug for Error {
    fn fmt(&self, f: &mut fmt::Formatter<'_>) -> fmt::Result {
        f.write_str("anyhow-model error")
    }
}

impl fmt::Display for Error {
    fn fmt(&self, f: &mut fmt::Formatter<'_>) -> fmt::Result {
        f.write_str("anyhow-model error")
    }
}

impl<E> From<E> for Error
where
    E: std::error::Error + Send + Sync + 'static,
{
    #[inline]
    fn from(_e: E) -> Self {
        Error::new_opaque()
    }
}

mod sealed {
    pub trait IntoModel {
        fn into_model(self) -> super::Error;
    }
    impl IntoModel for super::Error {
        #[inline]
        fn into_model(self) -> super::Error {
            self
        }
    }
    impl<E> IntoModel for E
    where
        E: std::error::Error + Send + Sync + 'static,
    {
        #[inline]
        fn into_model(self) -> super::Error {
            super::Error::new_opaque()
        }
    }
}

pub trait Context<T, E>: Sized {
    fn context<C>(self, context: C) -> Result<T, Error>
    where
        C: fmt::Display + Send + Sync + 'static;
    fn with_context<C, F>(self, f: F) -> Result<T, Error>
    where
        C: fmt::Display + Send + Sync + 'static,
        F: FnOnce() -> C;
}

impl<T, E> Context<T, E> for core::result::Result<T, E>
where
    E: sealed::IntoModel,
{
    #[inline]
    fn context<C>(self, _context: C) -> Result<T, Error>
    where
        C: fmt::Display + Send + Sync + 'static,
    {
        match self {
            Ok(v) => Ok(v),
            Err(e) => Err(e.into_model()),
        }
    }
    #[inline]
    fn with_context<C, F>(self, f: F) -> Result<T, Error>
    where
        C: fmt::Display + Send + Sync + 'static,
        F: FnOnce() -> C,
    {
        match self {
            Ok(v) => Ok(v),
            Err(e) => {
                let _c = f();
                Err(e.into_model())
            }
        }
    }
}

impl<T> Context<T, core::convert::Infallible> for Option<T> {
    fn context<C>(self, _context: C) -> Result<T, Error>
    where
        C: fmt::Display + Send + Sync + 'static,
    {
        self.ok_or_else(Error::new_opaque)
    }
    fn with_context<C, F>(self, f: F) -> Result<T, Error>
    where
        C: fmt::Display + Send + Sync + 'static,
        F: FnOnce() -> C,
    {
        match self {
            Some(v) => Ok(v),
            None => {
                let _c = f();
                Err(Error::new_opaque())
            }
        }
    }
}

#[macro_export]
macro_rules! anyhow {
    ($($t:tt)*) => {{
        let _m = ::std::format!($($t)*);
        $crate::Error::new_opaque()
    }};
}

#[macro_export]
macro_rules! bail {
    ($($t:tt)*) => {
        return ::core::result::Result::Err($crate::anyhow!($($t)*))
    };
}

#[macro_export]
macro_rules! ensure {
    ($cond:expr, $($t:tt)*) => {
        if !$cond {
            $crate::bail!($($t)*);
        }
    };
}
