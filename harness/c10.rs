//! C10 — interrupt delivery at an instruction boundary: one call of `try_interrupt` from an arbitrary
//! pending queue (0..=3 requests), arbitrary CCR, PC and SP.
use crate::harness::ih::{self, Ctx};
use crate::harness::mem;
use crate::harness::refmodel as rm;
use crate::harness::src::Src;
use crate::harness::util::*;

pub fn boundary_step<S: Src>(s: &mut S, n_concrete: u8) {
    let mut c: Ctx = ih::begin(s, 0);
    // the queue length is a call-site constant (one harness per length 0..=3): a symbolic number of
    // VecDeque::push_back calls (reallocation paths) exhausted 12 GB in CBMC
    let n = n_concrete;
    let q = [s.u8(), s.u8(), s.u8()];
    let vec = [s.u8(), s.u8(), s.u8(), s.u8()];
    let init = [s.u8(), s.u8(), s.u8(), s.u8()];
    let pc = s.u32();
    s.assume(q[0] >= 1 && q[0] <= 63 && q[1] >= 1 && q[1] <= 63 && q[2] >= 1 && q[2] <= 63);
    s.assume(pc <= 0xffffff && pc & 1 == 0);
    c.cpu.vh_set_pc(pc);
    let mut i = 0;
    while i < 3 {
        if (i as u8) < n {
            c.cpu.vh_request_interrupt(q[i]);
        }
        i += 1;
    }
    let sp = c.pre.er[7];
    let fa = sp.wrapping_sub(4) & 0xffffff;
    let va = 4 * q[0] as u32;
    s.assume(sp & 1 == 0 && mem::plain_mem(fa) && mem::plain_mem(fa + 3) && mem::disjoint(fa, 4, va, 4));
    c.window(0, fa, &init);
    c.window(1, va, &vec);
    mem::seal(&mut c.cpu);
    let pre = snap(&c.cpu);
    let r = c.cpu.vh_try_interrupt();
    let masked = pre.ccr & rm::I != 0;
    let accept = !masked && n > 0;
    let ok_outcome = r.is_ok();
    // queue afterwards
    let exp_len = if accept { n as usize - 1 } else { n as usize };
    let mut ok_queue = c.cpu.vh_pending_len() == exp_len;
    let off = if accept { 1 } else { 0 };
    i = 0;
    while i < 3 {
        if i < exp_len {
            if c.cpu.vh_pending(i) != Some(q[i + off]) {
                ok_queue = false;
            }
        }
        i += 1;
    }
    let mut ok_state = true;
    let mut ok_mem = !mem::stray_write_only(&c.cpu);
    if accept {
        let mut exp_er = pre.er;
        exp_er[7] = sp.wrapping_sub(4);
        let got_ccr = c.cpu.vh_ccr();
        ok_state = regs_eq(&c.cpu.er, &exp_er)
            && (got_ccr == pre.ccr | rm::I || got_ccr == pre.ccr | rm::I | rm::UI)
            && c.cpu.vh_pc() == ((vec[1] as u32) << 16) | ((vec[2] as u32) << 8) | vec[3] as u32;
        ok_mem = ok_mem
            && mem::win_byte(&c.cpu, 0, 0) == pre.ccr
            && mem::win_byte(&c.cpu, 0, 1) == (pc >> 16) as u8
            && mem::win_byte(&c.cpu, 0, 2) == (pc >> 8) as u8
            && mem::win_byte(&c.cpu, 0, 3) == pc as u8;
    } else {
        ok_state = regs_eq(&c.cpu.er, &pre.er) && c.cpu.vh_ccr() == pre.ccr && c.cpu.vh_pc() == pc;
        let mut k = 0;
        while k < 4 {
            if mem::win_byte(&c.cpu, 0, k) != init[k] {
                ok_mem = false;
            }
            k += 1;
        }
    }
    let mut k = 0;
    while k < 4 {
        if mem::win_byte(&c.cpu, 1, k) != vec[k] {
            ok_mem = false;
        }
        k += 1;
    }
    witness!(when: n == 3, ok_outcome && accept && q[1] != q[0] && q[2] != q[1], "accepted with two more distinct requests pending");
    witness!(when: n >= 1, ok_outcome && masked, "masked with requests pending");
    witness!(when: n == 0, ok_outcome && !masked, "unmasked, nothing pending");
    std::mem::forget(c);
    verdict!("outcome" => ok_outcome, "queue" => ok_queue, "state" => ok_state, "mem" => ok_mem);
}

/// Requests are queued in arrival order and none is dropped: `request_interrupt` appends.
pub fn request_appends<S: Src>(s: &mut S, n: u8) {
    let mut cpu = mk_cpu(s, 0);
    // up to 9 requests: crosses two reallocations of the ring buffer (capacity 4 -> 8 -> 16)
    let q = [s.u8(), s.u8(), s.u8(), s.u8(), s.u8(), s.u8(), s.u8(), s.u8(), s.u8()];
    let mut i = 0;
    while i < 9 {
        if (i as u8) < n {
            cpu.vh_request_interrupt(q[i]);
        }
        i += 1;
    }
    let mut ok = cpu.vh_pending_len() == n as usize;
    i = 0;
    while i < 9 {
        if (i as u8) < n && cpu.vh_pending(i) != Some(q[i]) {
            ok = false;
        }
        i += 1;
    }
    witness!(q[0] != q[4], "distinct requests queued");
    std::mem::forget(cpu);
    verdict!("fifo" => ok);
}
