//! C08 — effective-address formation: pure-function lemmas on the real helpers, and STC.W memory forms
//! (address formation and register update only; STC's data layout is not part of any property).
use crate::harness::ih::{self, Ctx};
use crate::harness::mem;
use crate::harness::refmodel as rm;
use crate::harness::src::Src;
use crate::harness::util::*;

/// get_addr_ern / get_addr_disp16 / get_addr_disp24 / get_addr_abs8 / get_addr_abs16 for every base
/// register value (32 bits), every displacement and every aa: result == architectural EA mod 2^24, and
/// never an error (a wrapping sum is not an error).
pub fn ea_pure<S: Src>(s: &mut S) {
    let cpu = mk_cpu(s, 0);
    let f = s.u8() & 7;
    let d16 = s.u16();
    let d24 = s.u32() & 0xffffff;
    let a8 = s.u8();
    let a16 = s.u16();
    let base = cpu.er[f as usize];
    let r_ern = cpu.vh_get_addr_ern(f);
    let r_d16 = cpu.vh_get_addr_disp16(f, d16);
    let r_d24 = cpu.vh_get_addr_disp24(f, d24);
    let ok_ern = match r_ern { Ok(v) => v == base & 0xffffff, Err(_) => false };
    let ok_d16 = match r_d16 { Ok(v) => v == rm::ea_disp16(base, d16), Err(_) => false };
    let ok_d24 = match r_d24 { Ok(v) => v == rm::ea_disp24(base, d24), Err(_) => false };
    let ok_a8 = cpu.vh_get_addr_abs8(a8) == rm::ea_abs8(a8);
    let ok_a16 = cpu.vh_get_addr_abs16(a16) == rm::ea_abs16(a16);
    witness!(base > 0xfffffff0 && d16 == 0x0020, "d:16 sum wraps past 2^32");
    witness!(base < 0x10 && d24 == 0xffff00, "negative d:24 from a base near zero");
    witness!(base == 0x00fffffe && d24 == 0x000004, "d:24 sum wraps past 2^24");
    std::mem::forget(cpu);
    verdict!("ern" => ok_ern, "disp16" => ok_d16, "disp24" => ok_d24, "abs8" => ok_a8, "abs16" => ok_a16);
}

pub const ST_ERN: u8 = 0;
pub const ST_D16: u8 = 1;
pub const ST_D24: u8 = 2;
pub const ST_DEC: u8 = 3;
pub const ST_A16: u8 = 4;
pub const ST_A24: u8 = 5;

/// STC.W CCR,<memory form>: exactly the two bytes at the architectural EA are accessed, @-ERd
/// pre-decrements the full register by 2, CCR and all other registers are unchanged, PC += length.
pub fn stc_w<S: Src>(s: &mut S, mode: u8, am: u8) {
    let mut c: Ctx = ih::begin(s, PC_RAM);
    let init = [s.u8(), s.u8()];
    s.assume(c.code[0] == 0x01 && c.code[1] == 0x40);
    let b2 = c.code[2];
    let b3 = c.code[3];
    let f = (b3 >> 4) & 7;
    let base = c.pre.er[f as usize];
    let (ea, len): (u32, u32);
    match am {
        ST_ERN => {
            s.assume(b2 == 0x69 && b3 & 0x8f == 0x80);
            ea = base & 0xffffff;
            len = 4;
        }
        ST_D16 => {
            s.assume(b2 == 0x6f && b3 & 0x8f == 0x80);
            ea = rm::ea_disp16(base, c.w(2));
            len = 6;
        }
        ST_D24 => {
            s.assume(b2 == 0x78 && b3 & 0x8f == 0x00 && c.code[4] == 0x6b && c.code[5] == 0xa0 && c.code[6] == 0);
            let d = ((c.code[7] as u32) << 16) | ((c.code[8] as u32) << 8) | c.code[9] as u32;
            ea = rm::ea_disp24(base, d);
            len = 10;
        }
        ST_DEC => {
            s.assume(b2 == 0x6d && b3 & 0x8f == 0x80);
            ea = base.wrapping_sub(2) & 0xffffff;
            len = 4;
        }
        ST_A16 => {
            s.assume(b2 == 0x6b && b3 == 0x80);
            ea = rm::ea_abs16(c.w(2));
            len = 6;
        }
        _ => {
            s.assume(b2 == 0x6b && b3 == 0xa0 && c.code[4] == 0);
            ea = ((c.code[5] as u32) << 16) | ((c.code[6] as u32) << 8) | c.code[7] as u32;
            len = 8;
        }
    }
    s.assume(mem::plain_mem(ea) && mem::plain_mem(ea + 1) && ea & 1 == 0 && c.code_disjoint(ea, 2));
    c.window(0, ea, &init);
    let r = c.step();
    let mut e = c.expect();
    if am == ST_DEC {
        e.er[f as usize] = base.wrapping_sub(2);
    }
    e.pc = c.pc0 + len;
    e.cyc(rm::K_I, (len / 2) as u8, c.pc0);
    e.cyc(rm::K_M, 1, ea);
    if am == ST_DEC {
        e.cyc(rm::K_N, 2, c.pc0);
    }
    let mut a = c.compare(&r, &e);
    if am == ST_DEC {
        // recorded defect (pinned by the repo's test_stc_w_inc_ern): STC.W CCR,@-ERd is executed as a
        // post-increment store: word written at ERd (not ERd-2) and ERd += 2.
        let mut exp_er = c.pre.er;
        exp_er[f as usize] = base.wrapping_add(2);
        let emu_ea = base & 0xffffff;
        let emu_mapped = mem::accessible(emu_ea) && mem::accessible(emu_ea + 1);
        // exactly the post-increment outcome: store at ERd then ERd += 2, or an access error with no change
        let known_wrong = if emu_mapped { r.is_ok() && regs_eq(&c.cpu.er, &exp_er) } else { r.is_err() && regs_eq(&c.cpu.er, &c.pre.er) };
        a.outcome = kf!(KF_C08_STC_W_PREDEC_OUTCOME, known_wrong, a.outcome);
        a.regs = kf!(KF_C08_STC_W_PREDEC_REG, known_wrong, a.regs);
        a.mem = kf!(KF_C08_STC_W_PREDEC_EA, known_wrong, a.mem);
        a.states = kf!(KF_C20_STC_W_PREDEC_COST, known_wrong, a.states);
    }
    let ok = r.is_ok();
    witness!(when: am != ST_A16 && am != ST_A24, ok && base > 0xffffff && ea >= 0x400000 && ea < 0x600000, "store to DRAM via register with non-zero upper byte");
    witness!(when: am == ST_A16 || am == ST_A24, ok && ea >= 0xffbf20, "store to on-chip RAM");
    witness!(when: am != ST_DEC, ok && mem::window_written(0) || cfg!(not(kani)), "operand window written");
    std::mem::forget(c);
    ih::conclude(a, mode);
}
