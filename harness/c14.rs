//! C14 — the MES system-call trap (TRAPA #0): write (id 104), set_handler (id 113), anything else.
use crate::cpu::Cpu;
use crate::harness::ih::{self, Ctx};
use crate::harness::mem;
use crate::harness::refmodel as rm;
use crate::harness::src::Src;
use crate::harness::util::*;
use anyhow::Result;

pub const OUT_MAX: usize = 8;
pub static mut OUT_COUNT: u32 = 0;
pub static mut OUT_LEN: usize = 0;
pub static mut OUT: [u8; OUT_MAX] = [0; OUT_MAX];

/// Stub for `Cpu::send_stdout_message` (Kani only): records the string handed to the message layer.
pub fn ghost_send_stdout(_c: &mut Cpu, string: &String) -> Result<()> {
    unsafe {
        OUT_COUNT += 1;
        let b = string.as_bytes();
        OUT_LEN = b.len();
        let mut i = 0;
        while i < b.len() && i < OUT_MAX {
            OUT[i] = b[i];
            i += 1;
        }
    }
    Ok(())
}

#[cfg(not(kani))]
pub static mut NATIVE_RX: Option<std::sync::mpsc::Receiver<String>> = None;

/// Natively the real message path is used: a channel-backed socket captures `stdout:<text>`.
fn attach_capture(cpu: &mut Cpu) {
    unsafe {
        OUT_COUNT = 0;
        OUT_LEN = 0;
        OUT = [0; OUT_MAX];
    }
    #[cfg(not(kani))]
    {
        let (tx, rx) = std::sync::mpsc::channel::<String>();
        let (_tx2, rx2) = std::sync::mpsc::channel::<String>();
        cpu.vh_set_socket(Some(crate::socket::Socket::vh_from_channels(tx, rx2)));
        unsafe { NATIVE_RX = Some(rx) };
    }
    let _ = cpu;
}

#[allow(static_mut_refs)]
fn collect_capture() {
    #[cfg(not(kani))]
    unsafe {
        if let Some(rx) = &NATIVE_RX {
            for m in rx.try_iter() {
                if let Some(t) = m.strip_prefix("stdout:") {
                    OUT_COUNT += 1;
                    let b = t.as_bytes();
                    OUT_LEN = b.len();
                    for (i, x) in b.iter().enumerate().take(OUT_MAX) {
                        OUT[i] = *x;
                    }
                } else {
                    OUT_COUNT += 100; // any other message is unexpected here
                }
            }
        }
    }
}

pub const LEN_MAX: u32 = 4;
pub const SYM: u32 = 0xffff_ffff;

/// TRAPA #0 with ER0 = 104: exactly the `length` bytes at `buffer` reach the message layer once, in
/// order; registers, SP, CCR and memory unchanged; PC = next instruction.
/// The length is a call-site constant (one harness per length): the copy loop and the UTF-8 validation
/// then unwind exactly, which is 5-10x cheaper than a symbolic length under a global unwind bound and
/// stays within memory when the loop is restructured (seeded change C14-overread).
pub fn sys_write<S: Src>(s: &mut S, len_c: u32, arg_c: u32) {
    let mut c: Ctx = ih::begin(s, PC_RAM);
    let fd = s.u32();
    let buf = s.u32();
    let len_s = s.u32();
    let arg_s = s.u32();
    // SYM = symbolic (length 0..=LEN_MAX / argument block anywhere); otherwise a call-site constant
    let len = if len_c == SYM { len_s } else { len_c };
    s.assume(len <= if len_c == SYM { LEN_MAX } else { len_c });
    let cap: usize = if len_c == SYM { LEN_MAX as usize } else { len_c as usize };
    let data = [s.u8(), s.u8(), s.u8(), s.u8(), s.u8(), s.u8(), s.u8(), s.u8()];
    s.assume(c.code[0] == 0x57 && c.code[1] == 0x00);
    c.cpu.er[0] = 104;
    // the argument block address is a call-site constant too (on-chip RAM or DRAM): only then does the
    // emulator's read of `length` fold to the constant (a symbolic window index does not), so that the
    // loops unwind exactly; the buffer address and all contents stay symbolic
    c.cpu.er[1] = if arg_c == SYM { arg_s } else { arg_c };
    let arg = c.cpu.er[1];
    s.assume(arg <= 0xffffff && arg & 1 == 0 && mem::plain_mem(arg) && mem::plain_mem(arg + 11) && c.code_disjoint(arg, 12));
    s.assume(buf <= 0xffffff);
    s.assume(len == 0 || (mem::plain_mem(buf) && mem::plain_mem(buf + len - 1) && mem::disjoint(buf, len, arg, 12) && c.code_disjoint(buf, len)));
    s.assume(rm::valid_utf8(&data, len as usize));
    // the 12-byte argument block as three 4-byte windows (keeps every harness loop <= 8 iterations)
    let w_fd = fd.to_be_bytes();
    let w_buf = buf.to_be_bytes();
    let w_len = len.to_be_bytes();
    // the length word is window 0: the stub tests windows in index order, so with a constant argument
    // block address the read of `length` is decided before the (symbolic-address) buffer window is
    // consulted and folds to a constant during symbolic execution (probe: c14::probe_fold)
    c.window(0, arg + 8, &w_len);
    c.window(2, arg, &w_fd);
    c.window(3, arg + 4, &w_buf);
    mem::set_window_len(&mut c.cpu, 1, buf, &data, len);
    attach_capture(&mut c.cpu);
    let r = c.step();
    collect_capture();
    let mut e = c.expect();
    e.pc = c.pc0 + 2;
    let mut a = c.compare(&r, &e);
    if mem::win_be32(&c.cpu, 2, 0) != fd || mem::win_be32(&c.cpu, 3, 0) != buf || mem::win_be32(&c.cpu, 0, 0) != len {
        a.mem = false;
    }
    let mut i = 0;
    let (cnt, olen) = unsafe { (OUT_COUNT, OUT_LEN) };
    let mut ok_text = cnt == 1 && olen == len as usize;
    i = 0;
    while i < cap && i < 8 {
        if (i as u32) < len {
            if mem::win_byte(&c.cpu, 1, i) != data[i] {
                a.mem = false;
            }
            if unsafe { OUT[i] } != data[i] {
                ok_text = false;
            }
        }
        i += 1;
    }
    let ok = r.is_ok();
    witness!(when: cap >= 4, ok && len >= 4 && data[0] == 0xf0, "four-byte UTF-8 character written");
    witness!(when: cap >= 3, ok && len >= 3 && data[0] == b'\\' && data[1] == b'\n' && data[2] == 0, "backslash, newline, NUL written");
    witness!(when: len_c == SYM, ok && len == 0, "zero-length write");
    witness!(ok && buf >= 0x400000 && buf < 0x600000, "buffer in DRAM");
    witness!(when: cap >= 1, ok && len >= 1 && buf >= 0xffbf20, "buffer in on-chip RAM");
    witness!(when: cap >= 1, ok && len >= 1 && buf + len == 0x600000, "buffer ends at the last byte of DRAM");
    std::mem::forget(c);
    verdict!("outcome" => a.outcome, "regs" => a.regs, "ccr" => a.ccr, "pc" => a.pc, "mem" => a.mem, "text" => ok_text);
}

/// TRAPA #0 with ER0 = 113: a vector in 1..=63 is installed (its entry's low 24 bits = handler address);
/// other vector numbers change nothing.
pub fn sys_set_handler<S: Src>(s: &mut S) {
    let mut c: Ctx = ih::begin(s, PC_RAM);
    let vector = s.u32();
    let handler = s.u32();
    let vinit = [s.u8(), s.u8(), s.u8(), s.u8()];
    let ginit = [s.u8(), s.u8(), s.u8(), s.u8()];
    s.assume(c.code[0] == 0x57 && c.code[1] == 0x00);
    c.cpu.er[0] = 113;
    let arg = c.cpu.er[1];
    s.assume(arg <= 0xffffff && arg & 1 == 0 && mem::plain_mem(arg) && mem::plain_mem(arg + 7) && c.code_disjoint(arg, 8));
    s.assume(handler <= 0xffffff);
    let install = vector >= 1 && vector <= 63;
    let va = if install { 4 * vector } else { 4 };
    // the emulation also saves ER5 in a per-vector slot of the MES segment in on-chip RAM
    let ga = if install { 0xfffd10 + 4 * vector } else { 0xfffd14 };
    s.assume(mem::disjoint(arg, 8, va, 4) && mem::disjoint(arg, 8, ga, 4) && c.code_disjoint(ga, 4));
    let mut blk = [0u8; 8];
    blk[0..4].copy_from_slice(&vector.to_be_bytes());
    blk[4..8].copy_from_slice(&handler.to_be_bytes());
    c.window(0, arg, &blk);
    c.window(1, va, &vinit);
    c.window(2, ga, &ginit);
    attach_capture(&mut c.cpu);
    let r = c.step();
    collect_capture();
    let mut e = c.expect();
    e.pc = c.pc0 + 2;
    let mut a = c.compare(&r, &e);
    let mut i = 0;
    while i < 8 {
        if mem::win_byte(&c.cpu, 0, i) != blk[i] {
            a.mem = false;
        }
        i += 1;
    }
    let entry = mem::win_be32(&c.cpu, 1, 0);
    let ok_vector = if install {
        entry & 0xffffff == handler
    } else {
        entry == u32::from_be_bytes(vinit) && mem::win_be32(&c.cpu, 2, 0) == u32::from_be_bytes(ginit)
    };
    let ok_quiet = unsafe { OUT_COUNT } == 0;
    let ok = r.is_ok();
    witness!(ok && vector == 63 && handler >= 0x400000, "vector 63 installed");
    witness!(ok && vector == 64, "vector 64 ignored");
    witness!(ok && vector == 0, "vector 0 ignored");
    std::mem::forget(c);
    verdict!("outcome" => a.outcome, "regs" => a.regs, "ccr" => a.ccr, "pc" => a.pc, "mem" => a.mem, "vector" => ok_vector, "quiet" => ok_quiet);
}

/// Any other call number stops execution with an error.
pub fn sys_other<S: Src>(s: &mut S) {
    let mut c: Ctx = ih::begin(s, PC_RAM);
    s.assume(c.code[0] == 0x57 && c.code[1] == 0x00);
    s.assume(c.cpu.er[0] != 104 && c.cpu.er[0] != 113);
    attach_capture(&mut c.cpu);
    let r = c.step();
    collect_capture();
    let ok_err = r.is_err();
    let ok_quiet = unsafe { OUT_COUNT } == 0 && !mem::stray_write_only(&c.cpu);
    witness!(c.pre.er[0] == 105, "call number 105");
    std::mem::forget(c);
    verdict!("rejected" => ok_err, "quiet" => ok_quiet);
}

/// Same claim as `sys_other`, with a well-formed one-byte write() argument block at a constant address behind ER1: if a
/// call number other than 104 / 113 is (mis)taken for write() or set_handler, the effect then happens within the
/// unwinding bound and on memory a native run has too, so the counterexample can be extracted and replayed
/// (seed C14c: call number read from the 16-bit register; `sys_other` alone ended in unwinding failures).
pub fn sys_other_argblock<S: Src>(s: &mut S) {
    let mut c: Ctx = ih::begin(s, PC_RAM);
    s.assume(c.code[0] == 0x57 && c.code[1] == 0x00);
    s.assume(c.cpu.er[0] != 104 && c.cpu.er[0] != 113);
    c.cpu.er[1] = 0xffe000;
    let w_len = 1u32.to_be_bytes();
    let w_fd = 1u32.to_be_bytes();
    let w_buf = 0xffe100u32.to_be_bytes();
    let data = [b'A', 0, 0, 0, 0, 0, 0, 0];
    c.window(0, 0xffe008, &w_len);
    c.window(2, 0xffe000, &w_fd);
    c.window(3, 0xffe004, &w_buf);
    mem::set_window_len(&mut c.cpu, 1, 0xffe100, &data, 1);
    attach_capture(&mut c.cpu);
    let r = c.step();
    collect_capture();
    let ok_err = r.is_err();
    let ok_quiet = unsafe { OUT_COUNT } == 0 && !mem::stray_write_only(&c.cpu);
    witness!(c.pre.er[0] == 0x0001_0068, "call number H'10068");
    std::mem::forget(c);
    verdict!("rejected" => ok_err, "quiet" => ok_quiet);
}

/// Probe (not registered under any property): does a read through the footprint stub at a constant
/// address of a window with constant contents fold to a constant during symbolic execution?
pub fn probe_fold<S: Src>(s: &mut S) {
    let mut c: Ctx = ih::begin(s, PC_RAM);
    let w_len = 4u32.to_be_bytes();
    c.window(3, 0xffe008, &w_len);
    let code = c.code;
    mem::set_code(&mut c.cpu, c.pc0, &code);
    let v = c.cpu.vh_read_abs24_l(0xffe008).unwrap_or(99);
    let mut k = 0u32;
    let mut n = 0u32;
    // if v is not a constant for CBMC this loop needs an unwinding bound
    while k < v {
        n += 1;
        k += 1;
    }
    std::mem::forget(c);
    verdict!("folded" => n == 4);
}
