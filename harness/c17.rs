//! C17 — 8-bit timer channel 0 on the real `Timer8_0::update_timer8_0` / `update_tcr`.
use crate::cpu::Cpu;
use crate::harness::src::Src;

const I_TCR: usize = 0x60; // H'FFFF80 - H'FFFF20
const I_TCSR: usize = 0x62;
const I_TCORA: usize = 0x64;
const I_TCORB: usize = 0x66;
const I_TCNT: usize = 0x68;
const TCR0_ADDR: u32 = 0xffff80;

fn divisor(tcr: u8) -> u32 {
    match tcr & 7 {
        1 => 8,
        2 => 64,
        3 => 8192,
        _ => 0,
    }
}

pub const REQ_MAX: usize = 40;
pub static mut IRQ_LOG: [u8; REQ_MAX] = [0; REQ_MAX];
pub static mut IRQ_N: usize = 0;

/// Stub for `InterruptController::request_interrupt` (Kani only): the real VecDeque is verified to be
/// an appending FIFO in C10; with it, 33 ticks x 3 possible pushes did not get through symbolic
/// execution in 20 minutes.
pub fn ghost_request_interrupt(_ic: &mut crate::cpu::interrupt_controller::InterruptController, num: u8) {
    unsafe {
        if IRQ_N < REQ_MAX {
            IRQ_LOG[IRQ_N] = num;
        }
        IRQ_N += 1;
    }
}

fn irq_len(cpu: &Cpu) -> usize {
    #[cfg(kani)]
    {
        let _ = cpu;
        unsafe { IRQ_N }
    }
    #[cfg(not(kani))]
    {
        cpu.vh_pending_len()
    }
}

fn irq_at(cpu: &Cpu, i: usize) -> Option<u8> {
    #[cfg(kani)]
    {
        let _ = cpu;
        unsafe { if i < IRQ_N && i < REQ_MAX { Some(IRQ_LOG[i]) } else { None } }
    }
    #[cfg(not(kani))]
    {
        cpu.vh_pending(i)
    }
}

/// One `update_modules(charge)` from an arbitrary timer state equals the tick-by-tick reference:
/// floor((residual + charge) / divisor) counts, compare-match / overflow flags, counter clear, one
/// interrupt request per event iff enabled, residual stays below the divisor.
pub fn update_step<S: Src>(s: &mut S, max_charge: u8) {
    let tcr = s.u8();
    let (tcnt0, tcora, tcorb, tcsr0) = (s.u8(), s.u8(), s.u8(), s.u8());
    let res0 = s.u16();
    let charge = s.u8();
    let div = divisor(tcr);
    let cclr = (tcr >> 3) & 3;
    s.assume(tcr & 7 <= 3); // external / cascaded clocks are outside the property
    s.assume(charge >= 1 && charge <= max_charge);
    s.assume(div == 0 || (res0 as u32) < div);
    // where the hardware manual leaves simultaneous events open
    s.assume(!(cclr == 1 || cclr == 2) || (tcora != tcorb && tcora != 0 && tcorb != 0));
    let mut cpu = Cpu::new();
    unsafe {
        IRQ_N = 0;
    }
    cpu.vh_module_manager().borrow_mut().write_registers(TCR0_ADDR, tcr);
    cpu.vh_module_manager().borrow_mut().vh_timer8_0_set_state(res0);
    cpu.bus.io_registrs2[I_TCR] = tcr;
    cpu.bus.io_registrs2[I_TCNT] = tcnt0;
    cpu.bus.io_registrs2[I_TCORA] = tcora;
    cpu.bus.io_registrs2[I_TCORB] = tcorb;
    cpu.bus.io_registrs2[I_TCSR] = tcsr0;
    let r = cpu.vh_update_modules(charge);

    // reference
    let mut tcnt = tcnt0;
    let mut tcsr = tcsr0;
    let mut req = [0u8; REQ_MAX];
    let mut nreq = 0usize;
    let mut res1 = res0 as u32;
    if div != 0 {
        let total = res0 as u32 + charge as u32;
        let n = total / div;
        res1 = total % div;
        let mut k = 0;
        while k < n {
            let (t, ovf) = tcnt.overflowing_add(1);
            tcnt = t;
            if tcnt == tcora {
                tcsr |= 0x40;
                if cclr == 1 {
                    tcnt = 0;
                }
                if tcr & 0x40 != 0 && nreq < REQ_MAX {
                    req[nreq] = 36;
                    nreq += 1;
                }
            }
            if tcnt == tcorb {
                tcsr |= 0x80;
                if cclr == 2 {
                    tcnt = 0;
                }
                if tcr & 0x80 != 0 && nreq < REQ_MAX {
                    req[nreq] = 37;
                    nreq += 1;
                }
            }
            if ovf {
                tcsr |= 0x20;
                if tcr & 0x20 != 0 && nreq < REQ_MAX {
                    req[nreq] = 39;
                    nreq += 1;
                }
            }
            k += 1;
        }
    }
    let ok_outcome = r.is_ok();
    let ok_count = cpu.bus.io_registrs2[I_TCNT] == tcnt;
    let ok_flags = cpu.bus.io_registrs2[I_TCSR] == tcsr;
    let (st, _presc) = cpu.vh_module_manager().borrow().vh_timer8_0();
    let ok_residual = st as u32 == res1;
    let mut ok_irq = irq_len(&cpu) == nreq;
    let mut i = 0;
    while i < REQ_MAX {
        if i < nreq && irq_at(&cpu, i) != Some(req[i]) {
            ok_irq = false;
        }
        i += 1;
    }
    let ok_frame = cpu.bus.io_registrs2[I_TCORA] == tcora && cpu.bus.io_registrs2[I_TCORB] == tcorb && cpu.bus.io_registrs2[I_TCR] == tcr;
    witness!(ok_outcome && div == 8 && nreq >= 2 && cclr == 1, "several compare-match A interrupts with counter clear");
    witness!(ok_outcome && div == 64 && tcsr & 0x20 != 0 && tcsr0 & 0x20 == 0, "overflow at divisor 64");
    witness!(ok_outcome && div == 8192 && res1 < res0 as u32, "divisor 8192 ticks");
    witness!(ok_outcome && div == 0, "no clock selected");
    std::mem::forget(cpu);
    verdict!("outcome" => ok_outcome, "count" => ok_count, "flags" => ok_flags, "residual" => ok_residual, "irq" => ok_irq, "frame" => ok_frame);
}

/// A CPU write to TCR keeps the phase invariant 0 <= residual < divisor (otherwise ticks bunch up at
/// the next update after a clock change), and selecting no clock stops the counter.
pub fn tcr_write_keeps_phase<S: Src>(s: &mut S) {
    let old = s.u8();
    let new = s.u8();
    let res0 = s.u16();
    s.assume(old & 7 <= 3 && new & 7 <= 3);
    let d0 = divisor(old);
    s.assume(d0 == 0 || (res0 as u32) < d0);
    s.assume(d0 != 0 || res0 == 0);
    let mut cpu = Cpu::new();
    cpu.vh_module_manager().borrow_mut().write_registers(TCR0_ADDR, old);
    cpu.vh_module_manager().borrow_mut().vh_timer8_0_set_state(res0);
    // the CPU write goes through the real Bus::write (concrete register address)
    let r = cpu.bus.write(TCR0_ADDR, new);
    let (st, presc) = cpu.vh_module_manager().borrow().vh_timer8_0();
    let d1 = divisor(new);
    let ok_outcome = r.is_ok() && cpu.bus.io_registrs2[I_TCR] == new;
    let ok_prescaler = presc as u32 == d1;
    let ok_phase = d1 == 0 || (st as u32) < d1;
    witness!(d0 == 64 && d1 == 8 && res0 >= 8, "switch from /64 to /8 with a large residual");
    witness!(d0 == 8 && d1 == 0, "clock stopped");
    std::mem::forget(cpu);
    verdict!("outcome" => ok_outcome, "prescaler" => ok_prescaler, "phase" => ok_phase);
}

/// Two consecutive CPU writes to TCR (old -> mid -> new) from a state satisfying the phase invariant:
/// the invariant (running => 0 <= residual < divisor) holds after each write.  The single-write harness
/// above assumes "stopped => residual 0" for its pre-state, which is one of two reasonable implementations
/// (clear when stopping / clear when restarting); this harness decides stop-then-restart sequences without
/// fixing that choice.
pub fn tcr_two_writes<S: Src>(s: &mut S) {
    let old = s.u8();
    let mid = s.u8();
    let new = s.u8();
    let res0 = s.u16();
    s.assume(old & 7 <= 3 && mid & 7 <= 3 && new & 7 <= 3);
    let d0 = divisor(old);
    s.assume(d0 != 0 && (res0 as u32) < d0);
    let mut cpu = Cpu::new();
    cpu.vh_module_manager().borrow_mut().write_registers(TCR0_ADDR, old);
    cpu.vh_module_manager().borrow_mut().vh_timer8_0_set_state(res0);
    let r1 = cpu.bus.write(TCR0_ADDR, mid);
    let (st1, presc1) = cpu.vh_module_manager().borrow().vh_timer8_0();
    let r2 = cpu.bus.write(TCR0_ADDR, new);
    let (st2, presc2) = cpu.vh_module_manager().borrow().vh_timer8_0();
    let (d1, d2) = (divisor(mid), divisor(new));
    let ok_outcome = r1.is_ok() && r2.is_ok() && cpu.bus.io_registrs2[I_TCR] == new;
    let ok_prescaler = presc1 as u32 == d1 && presc2 as u32 == d2;
    let ok_phase = (d1 == 0 || (st1 as u32) < d1) && (d2 == 0 || (st2 as u32) < d2);
    witness!(d0 == 64 && d1 == 0 && d2 == 8 && res0 >= 8, "stop, then restart with a smaller divisor");
    witness!(d0 == 8192 && d1 == 64 && d2 == 8 && res0 >= 64, "two successive reductions");
    std::mem::forget(cpu);
    verdict!("outcome" => ok_outcome, "prescaler" => ok_prescaler, "phase" => ok_phase);
}

/// Arithmetic lemma behind partition independence: splitting a charge never loses or gains a tick.
pub fn partition_lemma<S: Src>(s: &mut S) {
    let cks = s.u8();
    let res = s.u16() as u32;
    let s1 = s.u8() as u32;
    let s2 = s.u8() as u32;
    s.assume(cks >= 1 && cks <= 3);
    let d = divisor(cks);
    s.assume(res < d && s1 >= 1 && s2 >= 1);
    let n1 = (res + s1) / d;
    let r1 = (res + s1) % d;
    let n2 = (r1 + s2) / d;
    let r2 = (r1 + s2) % d;
    let ok = n1 + n2 == (res + s1 + s2) / d && r2 == (res + s1 + s2) % d;
    witness!(d == 8 && n1 > 0 && n2 > 0, "ticks in both parts");
    verdict!("partition" => ok);
}
