//! Helpers shared by harness bodies.
use crate::cpu::Cpu;
use crate::harness::src::Src;
use crate::harness::{ghost, mem};

pub const PC_RAM: u32 = 0xffcf20;
pub const PC_DRAM: u32 = 0x416900;

/// Fresh CPU with all eight registers and CCR drawn from the source; ghosts / footprint reset.
pub fn mk_cpu<S: Src>(s: &mut S, pc: u32) -> Cpu {
    ghost::reset();
    mem::reset();
    let mut cpu = Cpu::new();
    cpu.er = [s.u32(), s.u32(), s.u32(), s.u32(), s.u32(), s.u32(), s.u32(), s.u32()];
    cpu.vh_set_ccr(s.u8());
    cpu.vh_set_pc(pc);
    cpu
}

#[derive(Clone, Copy)]
pub struct Regs {
    pub er: [u32; 8],
    pub ccr: u8,
    pub pc: u32,
}

pub fn snap(cpu: &Cpu) -> Regs {
    Regs { er: cpu.er, ccr: cpu.vh_ccr(), pc: cpu.vh_pc() }
}

/// All registers except those whose index bit is set in `except_mask` are unchanged.
pub fn regs_frame(before: &Regs, cpu: &Cpu, except_mask: u8) -> bool {
    let mut ok = true;
    let mut i = 0;
    while i < 8 {
        if (except_mask >> i) & 1 == 0 && before.er[i] != cpu.er[i] {
            ok = false;
        }
        i += 1;
    }
    ok
}

pub fn rd_b(er: &[u32; 8], f: u8) -> u8 {
    let r = er[(f & 7) as usize];
    if f & 8 == 0 { (r >> 8) as u8 } else { r as u8 }
}
pub fn rd_w(er: &[u32; 8], f: u8) -> u16 {
    let r = er[(f & 7) as usize];
    if f & 8 == 0 { r as u16 } else { (r >> 16) as u16 }
}
pub fn wr_b(er: &mut [u32; 8], f: u8, v: u8) {
    let i = (f & 7) as usize;
    if f & 8 == 0 {
        er[i] = (er[i] & 0xffff00ff) | ((v as u32) << 8);
    } else {
        er[i] = (er[i] & 0xffffff00) | v as u32;
    }
}
pub fn wr_w(er: &mut [u32; 8], f: u8, v: u16) {
    let i = (f & 7) as usize;
    if f & 8 == 0 {
        er[i] = (er[i] & 0xffff0000) | v as u32;
    } else {
        er[i] = (er[i] & 0x0000ffff) | ((v as u32) << 16);
    }
}

pub fn regs_eq(a: &[u32; 8], b: &[u32; 8]) -> bool {
    // unrolled on purpose (no loop: keeps the unwinding bound a harness needs small)
    a[0] == b[0] && a[1] == b[1] && a[2] == b[2] && a[3] == b[3] && a[4] == b[4] && a[5] == b[5] && a[6] == b[6] && a[7] == b[7]
}

pub const CCR_C: u8 = 0x01;
pub const CCR_V: u8 = 0x02;
pub const CCR_Z: u8 = 0x04;
pub const CCR_N: u8 = 0x08;
pub const CCR_U: u8 = 0x10;
pub const CCR_H: u8 = 0x20;
pub const CCR_UI: u8 = 0x40;
pub const CCR_I: u8 = 0x80;
