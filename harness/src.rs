//! Value sources: `kani::any()` under Kani, recorded counterexample bytes natively.
//! Harness bodies draw *all* nondeterministic values through a `Src`, in a fixed order, before the
//! code under test runs (Kani's concrete playback lists one byte vector per `kani::any()` call in
//! call order; values drawn inside stubs would shift that order).

pub trait Src {
    fn u8(&mut self) -> u8;
    fn u16(&mut self) -> u16;
    fn u32(&mut self) -> u32;
    fn bool(&mut self) -> bool;
    /// `assume` – prunes under Kani; natively a failed assumption marks the replay as outside the
    /// harness's input space.
    fn assume(&mut self, cond: bool);
}

#[cfg(kani)]
pub struct KSrc;

#[cfg(kani)]
impl Src for KSrc {
    #[inline(always)]
    fn u8(&mut self) -> u8 { kani::any() }
    #[inline(always)]
    fn u16(&mut self) -> u16 { kani::any() }
    #[inline(always)]
    fn u32(&mut self) -> u32 { kani::any() }
    #[inline(always)]
    fn bool(&mut self) -> bool { kani::any() }
    #[inline(always)]
    fn assume(&mut self, cond: bool) { kani::assume(cond) }
}

/// Recorded source: byte vectors in `kani::any()` call order (little endian).
pub struct RSrc {
    pub vals: Vec<Vec<u8>>,
    pub idx: usize,
    pub assumption_failed: bool,
    pub underflow: bool,
}

impl RSrc {
    pub fn new(vals: Vec<Vec<u8>>) -> Self {
        RSrc { vals, idx: 0, assumption_failed: false, underflow: false }
    }
    fn next(&mut self, n: usize) -> u64 {
        let mut v: u64 = 0;
        if self.idx < self.vals.len() {
            let b = &self.vals[self.idx];
            for (i, x) in b.iter().take(n).enumerate() {
                v |= (*x as u64) << (8 * i);
            }
        } else {
            self.underflow = true;
        }
        self.idx += 1;
        v
    }
}

impl Src for RSrc {
    fn u8(&mut self) -> u8 { self.next(1) as u8 }
    fn u16(&mut self) -> u16 { self.next(2) as u16 }
    fn u32(&mut self) -> u32 { self.next(4) as u32 }
    fn bool(&mut self) -> bool { self.next(1) & 1 != 0 }
    fn assume(&mut self, cond: bool) {
        if !cond {
            self.assumption_failed = true;
        }
    }
}
