//! Instruction-harness toolkit: one step of the real `fetch()`+`exec()` against an expected post-state.
use crate::cpu::Cpu;
use crate::harness::ghost;
use crate::harness::mem;
use crate::harness::src::Src;
use crate::harness::util::*;
use anyhow::Result;

pub const MODE_SEM: u8 = 0; // semantic aspects (C01-C06, C08, C14)
pub const MODE_CYC: u8 = 1; // bus-cycle mix (C20)

pub const CODE_LEN: usize = 10;

pub struct Ctx {
    pub cpu: Cpu,
    pub pre: Regs,
    pub code: [u8; CODE_LEN],
    pub pc0: u32,
}

/// Expected post-state and bus-cycle mix.
#[derive(Clone, Copy)]
pub struct Expect {
    pub er: [u32; 8],
    pub ccr: u8,
    pub pc: u32,
    pub mix: [(u8, u8, u32); 4],
    pub nmix: usize,
}

impl Expect {
    pub fn cyc(&mut self, kind: u8, count: u8, addr: u32) {
        self.mix[self.nmix] = (kind, count, addr);
        self.nmix += 1;
    }
}

#[derive(Clone, Copy)]
pub struct Aspects {
    pub outcome: bool,
    pub route: bool,
    pub regs: bool,
    pub ccr: bool,
    pub pc: bool,
    pub mem: bool,
    pub states: bool,
}

/// Prologue: registers, CCR, ten symbolic code bytes, cost pool, stray-read pool -- all drawn here, in
/// this order, before anything executes.
pub fn begin<S: Src>(s: &mut S, pc: u32) -> Ctx {
    let mut cpu = mk_cpu(s, pc);
    native_distinct_cfg(&mut cpu);
    // (array literals instead of loops: keeps the unwinding bound a harness needs small)
    let code: [u8; CODE_LEN] = [s.u8(), s.u8(), s.u8(), s.u8(), s.u8(), s.u8(), s.u8(), s.u8(), s.u8(), s.u8()];
    ghost::draw_costs(s);
    let pool: [u8; mem::POOL] = [
        s.u8(), s.u8(), s.u8(), s.u8(), s.u8(), s.u8(), s.u8(), s.u8(), s.u8(), s.u8(), s.u8(), s.u8(), s.u8(), s.u8(), s.u8(), s.u8(),
    ];
    mem::set_pool(pool);
    let pre = snap(&cpu);
    Ctx { cpu, pre, code, pc0: pc }
}

impl Ctx {
    pub fn set_w(&mut self, i: usize, w: u16) {
        self.code[2 * i] = (w >> 8) as u8;
        self.code[2 * i + 1] = w as u8;
    }
    pub fn w(&self, i: usize) -> u16 {
        ((self.code[2 * i] as u16) << 8) | self.code[2 * i + 1] as u16
    }
    pub fn l(&self, i: usize) -> u32 {
        ((self.w(i) as u32) << 16) | self.w(i + 1) as u32
    }
    pub fn window(&mut self, idx: usize, base: u32, bytes: &[u8]) {
        mem::set_window(&mut self.cpu, idx, base, bytes);
    }
    /// Installs the code window, seals the footprint and executes one instruction.
    pub fn step(&mut self) -> Result<u8> {
        let code = self.code;
        mem::set_code(&mut self.cpu, self.pc0, &code);
        mem::seal(&mut self.cpu);
        self.pre = snap(&self.cpu);
        self.cpu.vh_step()
    }
    pub fn expect(&self) -> Expect {
        Expect { er: self.pre.er, ccr: self.pre.ccr, pc: self.pc0, mix: [(0, 0, 0); 4], nmix: 0 }
    }
    /// The code window is disjoint from [a, a+len).
    pub fn code_disjoint(&self, a: u32, len: u32) -> bool {
        mem::disjoint(a, len, self.pc0, CODE_LEN as u32)
    }

    pub fn compare(&self, r: &Result<u8>, e: &Expect) -> Aspects {
        let outcome = r.is_ok();
        let route = ghost::called() == 0;
        let regs = regs_eq(&self.cpu.er, &e.er);
        let ccr = self.cpu.vh_ccr() == e.ccr;
        let pc = self.cpu.vh_pc() == e.pc;
        let mem_ok = !mem::stray(&self.cpu);
        // bus-cycle mix: under Kani the ghost cost function logged (kind,count,addr) and returned
        // pre-drawn costs; the instruction must return exactly their sum and the log must equal the
        // expected mix as a multiset (order is not part of the property).
        let mut states = true;
        #[cfg(kani)]
        {
            states = !ghost::log_overflow() && ghost::log_len() == e.nmix;
            let mut used = [false; 4];
            let mut sum: u32 = 0;
            let mut i = 0;
            while i < ghost::log_len() && i < 4 {
                let ent = ghost::log_at(i);
                sum += ghost::cost_at(i) as u32;
                let mut found = false;
                let mut j = 0;
                while j < e.nmix {
                    if !found && !used[j] && e.mix[j].0 == ent.0 && e.mix[j].1 == ent.1
                        && (ent.0 == ghost::K_N || crate::harness::refmodel::cost_class(e.mix[j].2) == crate::harness::refmodel::cost_class(ent.2)) {
                        used[j] = true;
                        found = true;
                    }
                    j += 1;
                }
                if !found {
                    states = false;
                }
                i += 1;
            }
            if let Ok(v) = r {
                if *v as u32 != sum {
                    states = false;
                }
            }
        }
        #[cfg(not(kani))]
        {
            // native replay: real cost function with the bus settings of `Cpu::new()` + `cyc_native_cfg`
            if let Ok(v) = r {
                let cfg = crate::harness::ih::native_cfg(&self.cpu);
                let mut sum: u32 = 0;
                let mut j = 0;
                while j < e.nmix {
                    sum += e.mix[j].1 as u32 * crate::harness::refmodel::cycle_cost(e.mix[j].0, e.mix[j].2 & 0xffffff, &cfg) as u32;
                    j += 1;
                }
                states = *v as u32 == sum;
            }
        }
        Aspects { outcome, route, regs, ccr, pc, mem: mem_ok, states }
    }
}

#[cfg(not(kani))]
pub fn native_cfg(cpu: &Cpu) -> crate::harness::refmodel::BusCfg {
    crate::harness::refmodel::BusCfg {
        abwcr: cpu.bus.io_registrs1[0x20],
        astcr: cpu.bus.io_registrs1[0x21],
        wcrh: cpu.bus.io_registrs1[0x22],
        wcrl: cpu.bus.io_registrs1[0x23],
        drcra: cpu.bus.io_registrs1[0x26],
    }
}

/// Natively (replay of a C20 counterexample) use bus settings under which every area/kind has a
/// distinct cost so that a wrong cycle mix shows in the returned sum.
pub fn native_distinct_cfg(cpu: &mut Cpu) {
    #[cfg(not(kani))]
    {
        cpu.bus.io_registrs1[0x20] = 0xfb; // area 2 16-bit, others 8-bit
        cpu.bus.io_registrs1[0x21] = 0xff; // 3-state everywhere
        cpu.bus.io_registrs1[0x22] = 0b11_10_01_00;
        cpu.bus.io_registrs1[0x23] = 0b00_11_10_11;
        cpu.bus.io_registrs1[0x26] = 0x20; // area 2 DRAM
    }
    let _ = cpu;
}

pub fn conclude(a: Aspects, mode: u8) {
    if mode == MODE_CYC {
        verdict!("outcome" => a.outcome, "route" => a.route, "states" => a.states);
    } else {
        verdict!(
            "outcome" => a.outcome,
            "route" => a.route,
            "regs" => a.regs,
            "ccr" => a.ccr,
            "pc" => a.pc,
            "mem" => a.mem,
        );
    }
}
