//! C15 — no guest-controlled input makes the emulator panic.  The harnesses make *no* assumption on
//! opcode bits, registers, CCR or memory contents; the property is exactly "no failed Kani check
//! (panic / unwrap / arithmetic or shift overflow / index out of bounds / division by zero) located in
//! the emulator's source".  Kani models the overflow-checking build; every failure of another class is
//! a panic in optimized builds too (the native replay runs both profiles).
use crate::harness::ih::{self, Ctx};
use crate::harness::mem;
use crate::harness::src::Src;
use crate::harness::util::*;

/// One instruction with fully symbolic code bytes, registers, CCR and memory contents (every mapped
/// read returns an arbitrary byte, unmapped accesses fail as on the real bus).  The Kani wrapper keeps
/// the handlers of ONE source file real and ghosts the others, so the union over all files (plus the
/// all-ghost dispatcher harness) covers every opcode.
pub fn free_step<S: Src>(s: &mut S, pc: u32) {
    let mut c: Ctx = ih::begin(s, pc);
    let r = c.step();
    witness!(r.is_ok(), "some instruction executes");
    witness!(r.is_err(), "some instruction is rejected");
    std::mem::forget(c);
}

/// TRAPA with arbitrary registers; the argument block of the system call is a declared window so that
/// the byte count of `write` is bounded by `LEN_MAX` (the only bound of this harness); buffer bytes,
/// addresses (mapped or not, aligned or not) and call numbers are arbitrary.
pub fn free_trapa<S: Src>(s: &mut S) {
    let mut c: Ctx = ih::begin(s, PC_RAM);
    let b_fd = [s.u8(), s.u8(), s.u8(), s.u8()];
    let b_buf = [s.u8(), s.u8(), s.u8(), s.u8()];
    let b_len = [s.u8(), s.u8(), s.u8(), s.u8()];
    s.assume(c.code[0] == 0x57);
    let len = u32::from_be_bytes(b_len);
    s.assume(len <= crate::harness::c14::LEN_MAX);
    let arg = c.cpu.er[1];
    // the argument block does not overlap the TRAPA instruction itself (otherwise the length is not
    // the bounded window content)
    s.assume(c.code_disjoint(arg, 12) && arg <= 0xffffff);
    // the 12-byte argument block as three 4-byte windows (keeps every harness loop <= 8 iterations)
    c.window(0, arg, &b_fd);
    c.window(1, arg.wrapping_add(4), &b_buf);
    c.window(2, arg.wrapping_add(8), &b_len);
    let r = c.step();
    witness!(r.is_ok() && c.pre.er[0] == 104 && len == 4, "write of four arbitrary bytes accepted");
    witness!(r.is_err() && c.pre.er[0] == 104, "write rejected (invalid UTF-8 or unmapped)");
    witness!(r.is_ok() && c.pre.er[0] == 113, "set_handler");
    std::mem::forget(c);
}

/// Instruction fetch on the real `Bus` (classification only: fresh memory).  `mapped == true`: both
/// fetched bytes are in mapped memory - must never panic.  `mapped == false` is the witness of the
/// recorded defect KF_C15_FETCH_UNWRAP (`fetch` unwraps the bus result): it is EXPECTED to fail while the
/// defect is open; it covers every unmapped PC.
pub fn free_fetch<S: Src>(s: &mut S, mapped: bool) {
    let mut cpu = mk_cpu(s, 0);
    let pc = s.u32();
    let a = pc & !1;
    let both = crate::harness::mem::accessible(a) && crate::harness::mem::accessible(a.wrapping_add(1));
    s.assume(both == mapped);
    s.assume(pc != 0xffffffff && pc != 0xfffffffe); // pc + 2 stays a u32 (PC is a 24-bit quantity in every reachable state)
    cpu.vh_set_pc(pc);
    let _w = cpu.vh_fetch();
    witness!(when: mapped, pc == 0x416900, "fetch at the load base");
    witness!(when: !mapped, pc == 0x600000, "fetch just above DRAM");
    std::mem::forget(cpu);
}

/// `Cpu::interrupt` with an arbitrary vector number and arbitrary SP (footprint memory).
pub fn free_interrupt<S: Src>(s: &mut S) {
    let mut c: Ctx = ih::begin(s, PC_RAM);
    let v = s.u8();
    // only vectors a peripheral can request (the controller multiplies the u8 vector by 4)
    s.assume(v <= 63);
    mem::seal(&mut c.cpu);
    let r = c.cpu.vh_interrupt(v);
    witness!(r.is_ok(), "accepted");
    witness!(r.is_err(), "stack unmapped");
    std::mem::forget(c);
}

/// Peripheral side of "no guest program can panic the emulator": any byte sequence a guest can write to the 8-bit
/// timer's control register (clock selects 4-7, which the emulator leaves unimplemented, included), followed by any
/// peripheral update the run loop can issue, with arbitrary timer registers - no failed Kani check in `update_tcr`
/// / `update_timer8_0` (division by zero, overflow, index).  Added after seed C15c (a zero prescaler divided by).
pub fn free_timer_update<S: Src>(s: &mut S) {
    let tcr1 = s.u8();
    let tcr2 = s.u8();
    let regs = [s.u8(), s.u8(), s.u8(), s.u8()];
    let charge1 = s.u8();
    let charge2 = s.u8();
    // bound of the tick loop (unwinding): at most 16 states per update, i.e. two ticks at the fastest clock
    s.assume(charge1 <= 16 && charge2 <= 16);
    let mut cpu = crate::cpu::Cpu::new();
    let r1 = cpu.bus.write(0xffff80, tcr1);
    cpu.bus.io_registrs2[0x62] = regs[0]; // TCSR
    cpu.bus.io_registrs2[0x64] = regs[1]; // TCORA
    cpu.bus.io_registrs2[0x66] = regs[2]; // TCORB
    cpu.bus.io_registrs2[0x68] = regs[3]; // TCNT
    let u1 = cpu.vh_update_modules(charge1);
    let r2 = cpu.bus.write(0xffff80, tcr2);
    let u2 = cpu.vh_update_modules(charge2);
    witness!(r1.is_ok() && r2.is_ok() && u1.is_ok() && u2.is_ok() && tcr1 & 7 == 5 && tcr2 & 7 == 1 && charge2 == 16, "unimplemented clock select, then an internal clock");
    witness!(tcr1 & 7 == 1 && tcr2 & 7 == 6 && charge1 == 16, "internal clock, then an unimplemented select");
    std::mem::forget(cpu);
    verdict!("outcome" => r1.is_ok() && r2.is_ok());
}
