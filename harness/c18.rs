//! C18 — control-socket lines.
//! (a) unit level: the REAL `Cpu::parse_u8` / `Cpu::parse_ioport` on field lists whose number/address/value
//!     texts are symbolic ASCII strings of symbolic length; `Bus::write` / `Bus::write_port` are logging stubs.
//! (b) run-loop level: the REAL `Cpu::run` polling loop with `Socket::pop_messages` scripted: the batch
//!     structure of a script is a call-site constant (one harness per script), the hexadecimal operands
//!     of the lines are symbolic.  fetch/exec/clock are the C13 stubs.
use crate::cpu::Cpu;
use crate::harness::c13::{E_EXEC, E_FETCH, E_POP, E_PORT, E_WRITE, EV, EV_MAX, EV_N, K, SCRIPT_OK, SCRIPT_PC, SCRIPT_STATE};
use crate::harness::src::Src;
use anyhow::Result;

fn hexval(b: u8) -> Option<u32> {
    if b >= b'0' && b <= b'9' {
        Some((b - b'0') as u32)
    } else if b >= b'a' && b <= b'f' {
        Some((b - b'a') as u32 + 10)
    } else if b >= b'A' && b <= b'F' {
        Some((b - b'A') as u32 + 10)
    } else {
        None
    }
}

/// Reference reading of an unsigned hexadecimal field: every byte a hex digit, at least one digit,
/// value <= max.  (64-bit accumulator, at most 9 digits: cannot wrap.)
fn ref_hex(bytes: &[u8; 9], len: usize, max: u64) -> Option<u32> {
    if len == 0 {
        return None;
    }
    let mut acc: u64 = 0;
    let mut ok = true;
    let mut i = 0;
    while i < 9 {
        if i < len {
            match hexval(bytes[i]) {
                Some(d) => acc = acc * 16 + d as u64,
                None => ok = false,
            }
        }
        i += 1;
    }
    if ok && acc <= max { Some(acc as u32) } else { None }
}

fn draw_field<S: Src>(s: &mut S, max_len: usize) -> ([u8; 9], usize) {
    let mut b = [0u8; 9];
    let mut i = 0;
    while i < 9 {
        b[i] = s.u8();
        i += 1;
    }
    let len = s.u8() as usize;
    s.assume(len <= max_len && max_len <= 9);
    i = 0;
    while i < 9 {
        s.assume(b[i] < 0x80); // ASCII: the receive worker delivers `String`s, every ASCII byte string is one
        i += 1;
    }
    // a leading sign is accepted by `from_str_radix`; the property says nothing about signed fields
    s.assume(b[0] != b'+' && b[0] != b'-');
    (b, len)
}

fn reset_log() {
    unsafe {
        EV = [(0, 0, 0); EV_MAX];
        EV_N = 0;
    }
}

pub const F_U8: u8 = 0;
pub const F_IOPORT: u8 = 1;

/// `u8:<addr>:<value>` / `ioport:<port>:<value>` after splitting: exactly one store / port input with the
/// parsed numbers iff there are exactly three fields and both numbers are well-formed hexadecimal in
/// range; otherwise no effect at all.  `nf` (number of fields, 2..=4) is a call-site constant.
pub fn parse_fields<S: Src>(s: &mut S, which: u8, nf: usize) {
    reset_log();
    let (a, la) = draw_field(s, if which == F_U8 { 9 } else { 3 });
    let (v, lv) = draw_field(s, 3);
    let mut cpu = Cpu::new();
    let ra = ref_hex(&a, la, if which == F_U8 { 0xffff_ffff } else { 0xff });
    let rv = ref_hex(&v, lv, 0xff);
    let kind = if which == F_U8 { E_WRITE } else { E_PORT };
    // "observable": the target is something a native run can read back (plain storage / an existing port)
    let observable = match ra {
        Some(x) if which == F_U8 => crate::harness::mem::accessible(x) && !crate::harness::mem::side_effect_reg(x),
        Some(p) => p >= 1 && p <= 11,
        None => false,
    };
    // native replay (no stubs): the target is preset to a sentinel different from the value to be written
    #[cfg(not(kani))]
    let sentinel: u8 = match rv {
        Some(y) => !(y as u8),
        None => 0x5a,
    };
    #[cfg(not(kani))]
    {
        if observable {
            let x = ra.unwrap();
            if which == F_U8 {
                let _ = cpu.bus.write(x, sentinel);
            } else {
                cpu.bus.io_port_in[x as usize - 1] = sentinel;
            }
        }
    }
    let a_str = unsafe { core::str::from_utf8_unchecked(&a[..la]) };
    let v_str = unsafe { core::str::from_utf8_unchecked(&v[..lv]) };
    let head = if which == F_U8 { "u8" } else { "ioport" };
    let list: Vec<&str> = if nf == 2 {
        vec![head, a_str]
    } else if nf == 3 {
        vec![head, a_str, v_str]
    } else {
        vec![head, a_str, v_str, v_str]
    };
    let ok_result = if which == F_U8 {
        cpu.parse_u8(list).is_ok()
    } else {
        cpu.parse_ioport(list);
        true
    };
    let expected: Option<(u8, u32, u32)> = match (nf == 3, ra, rv) {
        (true, Some(x), Some(y)) => Some((kind, x, y)),
        _ => None,
    };
    #[cfg(kani)]
    let (n, e0) = unsafe { (EV_N, EV[0]) };
    #[cfg(not(kani))]
    let (n, e0) = {
        if observable {
            let x = ra.unwrap();
            let now = if which == F_U8 { cpu.bus.read(x).unwrap_or(sentinel) } else { cpu.bus.io_port_in[x as usize - 1] };
            if now != sentinel { (1usize, (kind, x, now as u32)) } else { (0usize, (0u8, 0u32, 0u32)) }
        } else {
            // not observable natively: taken as expected (such a counterexample cannot be confirmed)
            match expected {
                Some(e) => (1usize, e),
                None => (0usize, (0u8, 0u32, 0u32)),
            }
        }
    };
    let ok_effect_all = match expected {
        Some(e) => n == 1 && e0 == e,
        None => n == 0,
    };
    // two aspects so that the solver is asked for a natively observable counterexample separately
    let ok_effect = !observable || ok_effect_all;
    let ok_effect_other = observable || ok_effect_all;
    witness!(when: nf == 3, n == 1 && la >= 2 && lv == 2 && observable, "a well-formed line is applied");
    witness!(when: nf == 3, n == 0 && la > 0 && lv > 0, "a malformed number is ignored");
    witness!(when: nf == 3 && which == F_U8, ra.is_none() && la == 9 && hexval(a[0]).is_some() && hexval(a[8]).is_some() && n == 0, "nine digits or a bad digit");
    witness!(when: nf != 3, n == 0, "wrong field count");
    std::mem::forget(cpu);
    verdict!("result" => ok_result, "effect" => ok_effect, "effect_unobservable_target" => ok_effect_other);
}

// ------------------------------------------------------------------------------------------ run-loop level

pub const MAXB: usize = 2; // lines per batch
pub const NPOLL: usize = 4;
/// One scripted line: kind + two symbolic nibbles.
pub const T_PAUSE: u8 = 1; // cmd:pause
pub const T_START: u8 = 2; // cmd:start
pub const T_STOP: u8 = 3; // cmd:stop
pub const T_U8: u8 = 4; // u8:ffcf2<a>:<b>
pub const T_PORT: u8 = 5; // ioport:<a>:<b>
pub const T_CMD3: u8 = 6; // cmd:pause:x   (malformed: three fields)
pub const T_UNK: u8 = 7; // foo:1
pub const T_EMPTY: u8 = 8; // (empty line)
pub const T_BADNUM: u8 = 9; // u8:zz:1
pub const T_CMDX: u8 = 10; // cmd:reset     (unknown command)
pub const T_CMD1: u8 = 11; // cmd           (malformed: one field)
pub const T_U8_2: u8 = 12; // u8:ffcf20     (malformed: two fields)

pub static mut SCRIPT: [[u8; MAXB]; NPOLL] = [[0; MAXB]; NPOLL];
pub static mut NIB: [[(u8, u8); MAXB]; NPOLL] = [[(0, 0); MAXB]; NPOLL];
pub static mut POLL_I: usize = 0;
pub static mut NBATCH: usize = NPOLL;

fn hexd(x: u8) -> u8 {
    let x = x & 15;
    if x < 10 { b'0' + x } else { b'a' + x - 10 }
}

/// Builds the line byte by byte (`push` of an ASCII char is a single store into a buffer of fixed
/// capacity).  `String::from(literal)` / `push_str` go through `memcpy`, after which CBMC's symbolic
/// execution no longer knows the bytes as constants and every `split` / comparison forks (measured:
/// > 12 GB for a two-line batch).
fn put(t: &mut String, lit: &[u8]) {
    let mut i = 0;
    while i < lit.len() {
        t.push(lit[i] as char);
        i += 1;
    }
}

fn line_text(kind: u8, a: u8, b: u8) -> String {
    let mut t = String::with_capacity(16);
    match kind {
        T_PAUSE => put(&mut t, b"cmd:pause"),
        T_START => put(&mut t, b"cmd:start"),
        T_STOP => put(&mut t, b"cmd:stop"),
        T_U8 => {
            put(&mut t, b"u8:ffcf2");
            t.push(hexd(a) as char);
            t.push(':');
            t.push(hexd(b) as char);
        }
        T_PORT => {
            put(&mut t, b"ioport:");
            t.push(hexd(a) as char);
            t.push(':');
            t.push(hexd(b) as char);
        }
        T_CMD3 => put(&mut t, b"cmd:pause:x"),
        T_UNK => put(&mut t, b"foo:1"),
        T_EMPTY => {}
        T_BADNUM => put(&mut t, b"u8:zz:1"),
        T_CMDX => put(&mut t, b"cmd:reset"),
        T_CMD1 => put(&mut t, b"cmd"),
        _ => put(&mut t, b"u8:ffcf20"),
    }
    t
}

/// Stub for `Socket::pop_messages`: poll p returns the lines of batch p of the script (concrete structure).
pub fn ghost_pop_script(_s: &crate::socket::Socket) -> Result<Vec<String>> {
    unsafe {
        let p = POLL_I;
        POLL_I += 1;
        if p >= NBATCH {
            // horizon: the poll after the last scripted batch fails, which ends `run` with that error
            return Err(anyhow::Error::new_opaque());
        }
        let mut v: Vec<String> = Vec::with_capacity(2);
        {
            let mut i = 0;
            while i < MAXB {
                let k = SCRIPT[p][i];
                if k != 0 {
                    v.push(line_text(k, NIB[p][i].0, NIB[p][i].1));
                }
                i += 1;
            }
        }
        Ok(v)
    }
}

/// The script `sc` (up to NPOLL batches of up to MAXB lines; kinds are call-site constants, operands
/// symbolic) is fed to the real polling loop.  The observed sequence of stores / port inputs /
/// instruction executions equals the reference interpretation of the lines *in arrival order*, which by
/// construction does not look at the batch boundaries except for "an instruction step happens after
/// each poll while not paused".
pub fn run_script<S: Src>(s: &mut S, sc: [[u8; MAXB]; NPOLL], nbatch: usize) {
    reset_log();
    unsafe { NBATCH = nbatch };
    let mut nib = [[(0u8, 0u8); MAXB]; NPOLL];
    let mut p = 0;
    while p < NPOLL {
        let mut i = 0;
        while i < MAXB {
            nib[p][i] = (s.u8() & 15, s.u8() & 15);
            i += 1;
        }
        p += 1;
    }
    unsafe {
        SCRIPT = sc;
        NIB = nib;
        POLL_I = 0;
        crate::harness::c13::EXEC_CALLS = 0;
        let mut j = 0;
        while j < K {
            SCRIPT_OK[j] = true;
            SCRIPT_STATE[j] = 1;
            SCRIPT_PC[j] = 0x1000 + 2 * j as u32;
            j += 1;
        }
    }
    let mut cpu = Cpu::new();
    cpu.exit_addr = 0xffffff;
    cpu.er[2] = 0x416900;
    let (tx, rx) = std::sync::mpsc::channel::<String>();
    let (_tx2, rx2) = std::sync::mpsc::channel::<String>();
    let _ = rx;
    cpu.vh_set_socket(Some(crate::socket::Socket::vh_from_channels(tx, rx2)));
    let r = cpu.run();

    // reference: expected event sequence (E_WRITE / E_PORT / E_EXEC), arrival order
    const XMAX: usize = NPOLL * MAXB + NPOLL;
    let mut exp: [(u8, u32, u32); XMAX] = [(0, 0, 0); XMAX];
    let mut nx = 0usize;
    let mut paused = false;
    let mut stopped = false;
    let mut nexec = 0u32;
    p = 0;
    while p < NPOLL {
        if !stopped && p < nbatch {
            let mut i = 0;
            while i < MAXB {
                let k = sc[p][i];
                let (a, b) = nib[p][i];
                if !stopped {
                    if k == T_PAUSE {
                        paused = true;
                    } else if k == T_START {
                        paused = false;
                    } else if k == T_STOP {
                        stopped = true;
                    } else if k == T_U8 {
                        exp[nx] = (E_WRITE, 0xffcf20 + a as u32, b as u32);
                        nx += 1;
                    } else if k == T_PORT {
                        exp[nx] = (E_PORT, a as u32, b as u32);
                        nx += 1;
                    }
                }
                i += 1;
            }
            if !stopped && !paused {
                exp[nx] = (E_EXEC, nexec, 0);
                nexec += 1;
                nx += 1;
            }
        }
        p += 1;
    }
    // observed: skip the five bus-controller writes of init_registers, keep E_WRITE / E_PORT / E_EXEC
    let total = unsafe { EV_N };
    let mut seen_writes = 0usize;
    let mut got = 0usize;
    let mut ok_effects = total <= EV_MAX;
    let mut i = 0;
    while i < EV_MAX {
        if i < total {
            let e = unsafe { EV[i] };
            if e.0 == E_WRITE || e.0 == E_PORT || e.0 == E_EXEC {
                if e.0 == E_WRITE && seen_writes < 5 {
                    seen_writes += 1;
                } else {
                    // events beyond the scripted horizon (the poll after the last batch is cut) do not exist
                    if got < XMAX {
                        if got >= nx || exp[got] != e {
                            ok_effects = false;
                        }
                    }
                    got += 1;
                }
            }
        }
        i += 1;
    }
    if got != nx {
        ok_effects = false;
    }
    // `stop` ends the run with Ok; otherwise the run ends with the horizon error of poll NPOLL
    let ok_stop = stopped == r.is_ok() && unsafe { POLL_I } <= nbatch + 1;
    witness!(got == nx && nx > 0, "all scripted effects observed");
    std::mem::forget(cpu);
    verdict!("effects" => ok_effects, "stop" => ok_stop);
}
