//! Environment stubs (every one is part of the claim; listed in the evidence).
use std::sync::mpsc::{SendError, Sender};

/// `std::fmt::format` -> empty string.  Message *texts* are outside every claim; the arguments are
/// still evaluated by `format_args!` at the call site.
pub fn fmt_format(_args: std::fmt::Arguments<'_>) -> String {
    String::new()
}

/// `mpsc::Sender::send` makes the Kani compiler ICE as soon as it is reachable; in every harness
/// `message_tx` is `None`, so the stub body is never executed.
pub fn mpsc_send<T>(_s: &Sender<T>, _t: T) -> Result<(), SendError<T>> {
    Ok(())
}

/// `Bus::new` for harnesses whose `Bus::read`/`Bus::write` are replaced by the footprint memory:
/// the real arrays are never touched there, so the 2 MiB DRAM / vector arrays are allocated with one
/// byte (keeps the non-sliced formula of counterexample extraction small).  Never used together with
/// the real `Bus::read`/`Bus::write`.
pub fn bus_new_small(module_manager: std::rc::Weak<std::cell::RefCell<crate::modules::ModuleManager>>) -> crate::bus::Bus {
    crate::bus::Bus {
        message_tx: None,
        module_manager,
        cpu_state_sum: 0,
        memory: crate::memory::create_memory(),
        exception_handling_vector: vec![0; 1].into_boxed_slice(),
        dram: vec![0; 1].into_boxed_slice(),
        io_registrs1: vec![0; crate::bus::IO_REGISTERS1_SIZE].into_boxed_slice(),
        io_registrs2: vec![0; crate::bus::IO_REGISTERS2_EMC1_SIZE].into_boxed_slice(),
        io_port_in: [0; crate::bus::IO_PORT_SIZE],
    }
}

/// `Bus::new` with the real on-chip RAM, vector area and I/O register arrays but a DRAM array of `N` bytes.
/// Used only by the C09 harnesses that make the WRITE address symbolic: a symbolic-index store into the
/// real 2 MiB array is a byte-update over two million elements (out of memory); those harnesses assume
/// every DRAM access lies inside the first `N` bytes (N = 1: no DRAM access at all).
fn bus_new_dram<const N: usize>(module_manager: std::rc::Weak<std::cell::RefCell<crate::modules::ModuleManager>>) -> crate::bus::Bus {
    crate::bus::Bus {
        message_tx: None,
        module_manager,
        cpu_state_sum: 0,
        memory: crate::memory::create_memory(),
        exception_handling_vector: vec![0; crate::bus::VENCTOR_SIZE].into_boxed_slice(),
        dram: vec![0; N].into_boxed_slice(),
        io_registrs1: vec![0; crate::bus::IO_REGISTERS1_SIZE].into_boxed_slice(),
        io_registrs2: vec![0; crate::bus::IO_REGISTERS2_EMC1_SIZE].into_boxed_slice(),
        io_port_in: [0; crate::bus::IO_PORT_SIZE],
    }
}
pub fn bus_new_dram1(m: std::rc::Weak<std::cell::RefCell<crate::modules::ModuleManager>>) -> crate::bus::Bus {
    bus_new_dram::<1>(m)
}
pub fn bus_new_dram4k(m: std::rc::Weak<std::cell::RefCell<crate::modules::ModuleManager>>) -> crate::bus::Bus {
    bus_new_dram::<4096>(m)
}
