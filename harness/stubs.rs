//! Environment stubs (every one is part of the claim; listed in the evidence).
use std::sync::mpsc::{SendError, Sender};

/// `std::fmt::format` -> empty string.  Message *texts* are outside every claim; the arguments are
/// still evaluated by `format_args!` at the call site.
pub fn fmt_format(_args: std::fmt::Arguments<'_>) -> String {
    String::new()
}

/// `mpsc::Sender::send` makes the Kani compiler ICE as soon as it is reachable; in every harness
/// `message_tx` is `None`, so the stub body is never executed.
pub fn mpsc_send<T>(_s: &Sender<T>, _t: T) -> Result<(), SendError<T>> {
    Ok(())
}

/// `Bus::new` for harnesses whose `Bus::read`/`Bus::write` are replaced by the footprint memory:
/// the real arrays are never touched there, so the 2 MiB DRAM / vector arrays are allocated with one
/// byte (keeps the non-sliced formula of counterexample extraction small).  Never used together with
/// the real `Bus::read`/`Bus::write`.
pub fn bus_new_small(module_manager: std::rc::Weak<std::cell::RefCell<crate::modules::ModuleManager>>) -> crate::bus::Bus {
    crate::bus::Bus {
        message_tx: None,
        module_manager,
        cpu_state_sum: 0,
        memory: crate::memory::create_memory(),
        exception_handling_vector: vec![0; 1].into_boxed_slice(),
        dram: vec![0; 1].into_boxed_slice(),
        io_registrs1: vec![0; crate::bus::IO_REGISTERS1_SIZE].into_boxed_slice(),
        io_registrs2: vec![0; crate::bus::IO_REGISTERS2_EMC1_SIZE].into_boxed_slice(),
        io_port_in: [0; crate::bus::IO_PORT_SIZE],
    }
}
