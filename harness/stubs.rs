//! Environment stubs (every one is part of the claim; listed in the evidence).
use std::sync::mpsc::{SendError, Sender};

/// `std::fmt::format` -> empty string.  Message *texts* are outside every claim; the arguments are
/// still evaluated by `format_args!` at the call site.
pub fn fmt_format(_args: std::fmt::Arguments<'_>) -> String {
    String::new()
}

/// `mpsc::Sender::send` makes the Kani compiler ICE as soon as it is reachable; in every harness
/// `message_tx` is `None`, so the stub body is never executed.
pub fn mpsc_send<T>(_s: &Sender<T>, _t: T) -> Result<(), SendError<T>> {
    Ok(())
}

