//! Ghost state shared by the generated ghost handlers and the ghost cost function.
use crate::cpu::{Cpu, StateType};
use anyhow::Result;

pub static mut GHOST_CALLED: u16 = 0;
pub static mut GHOST_A0: u16 = 0;
pub static mut GHOST_A1: u16 = 0;
pub static mut GHOST_COUNT: u16 = 0;
/// PC observed when the first ghost handler was entered (= words consumed by the dispatcher).
pub static mut GHOST_PC: u32 = 0;

pub fn hit(id: u16, a0: u16, a1: u16) -> Result<u8> {
    unsafe {
        if GHOST_COUNT == 0 {
            GHOST_CALLED = id;
            GHOST_A0 = a0;
            GHOST_A1 = a1;
        }
        GHOST_COUNT = GHOST_COUNT.wrapping_add(1);
    }
    Ok(0)
}

/// Stub for `Cpu::trapa_emulate_mes2` in harnesses about TRAPA #1-#3 (the system-call path is the
/// subject of C14): counts as a ghost hit.
pub fn ghost_mes2(_c: &mut Cpu) -> Result<()> {
    hit(9999, 0, 0).map(|_| ())
}

pub fn called() -> u16 {
    unsafe { GHOST_CALLED }
}
pub fn count() -> u16 {
    unsafe { GHOST_COUNT }
}
pub fn args() -> (u16, u16) {
    unsafe { (GHOST_A0, GHOST_A1) }
}

// ---- ghost bus-cycle cost function (semantic harnesses and C20) ----
pub const LOG_MAX: usize = 6;
pub const K_I: u8 = 0;
pub const K_J: u8 = 1;
pub const K_K: u8 = 2;
pub const K_L: u8 = 3;
pub const K_M: u8 = 4;
pub const K_N: u8 = 5;

pub static mut LOG: [(u8, u8, u32); LOG_MAX] = [(0, 0, 0); LOG_MAX];
pub static mut LOG_N: usize = 0;
pub static mut LOG_OVERFLOW: bool = false;
pub static mut COSTS: [u8; LOG_MAX] = [0; LOG_MAX];

pub fn kind_index(t: &StateType) -> u8 {
    match t {
        StateType::I => K_I,
        StateType::J => K_J,
        StateType::K => K_K,
        StateType::L => K_L,
        StateType::M => K_M,
        StateType::N => K_N,
    }
}

/// Stub for `Cpu::calc_state_with_addr`: logs (kind, count, address), returns the pre-drawn cost.
pub fn ghost_calc_state_with_addr(_c: &Cpu, state_type: StateType, state: u8, target_addr: u32) -> Result<u8> {
    unsafe {
        // contract of the real function (C19 harnesses): internal cycles ignore the address; any other
        // kind is rejected for an address that is neither on-chip RAM nor in areas 0-7 (>= 2^24)
        if kind_index(&state_type) != K_N && target_addr > 0xffffff {
            return Err(anyhow::Error::new_opaque());
        }
        if LOG_N < LOG_MAX {
            LOG[LOG_N] = (kind_index(&state_type), state, target_addr);
            let c = COSTS[LOG_N];
            LOG_N += 1;
            Ok(c)
        } else {
            LOG_OVERFLOW = true;
            Ok(0)
        }
    }
}

pub fn reset() {
    unsafe {
        GHOST_CALLED = 0;
        GHOST_A0 = 0;
        GHOST_A1 = 0;
        GHOST_COUNT = 0;
        GHOST_PC = 0;
        LOG = [(0, 0, 0); LOG_MAX];
        LOG_N = 0;
        LOG_OVERFLOW = false;
        COSTS = [0; LOG_MAX];
    }
}

/// Draws the cost pool (each < 40 so that a sum of up to six cannot overflow u8).
pub fn draw_costs<S: crate::harness::src::Src>(s: &mut S) {
    let c = [s.u8(), s.u8(), s.u8(), s.u8(), s.u8(), s.u8()];
    s.assume(c[0] < 40 && c[1] < 40 && c[2] < 40 && c[3] < 40 && c[4] < 40 && c[5] < 40);
    unsafe { COSTS = c };
}

pub fn log_len() -> usize {
    unsafe { LOG_N }
}
pub fn log_at(i: usize) -> (u8, u8, u32) {
    unsafe { LOG[i] }
}
pub fn log_overflow() -> bool {
    unsafe { LOG_OVERFLOW }
}
pub fn cost_at(i: usize) -> u8 {
    unsafe { COSTS[i] }
}
