//! C04 — bit-manipulation instructions on a byte register, @ERd or @aa:8.
use crate::harness::ih::{self, Ctx};
use crate::harness::mem;
use crate::harness::refmodel as rm;
use crate::harness::src::Src;
use crate::harness::util::*;

pub const BSET: u8 = 0;
pub const BCLR: u8 = 1;
pub const BNOT: u8 = 2;
pub const BTST: u8 = 3;
pub const BST: u8 = 4;
pub const BIST: u8 = 5;
pub const BLD: u8 = 6;
pub const BILD: u8 = 7;
pub const BAND: u8 = 8;
pub const BIAND: u8 = 9;
pub const BOR: u8 = 10;
pub const BIOR: u8 = 11;
pub const BXOR: u8 = 12;
pub const BIXOR: u8 = 13;

pub const REG: u8 = 0;
pub const ERN: u8 = 1;
pub const ABS8: u8 = 2;

fn op_byte(op: u8, from_rn: bool) -> u8 {
    if from_rn {
        match op {
            BSET => 0x60,
            BNOT => 0x61,
            BCLR => 0x62,
            _ => 0x63, // BTST
        }
    } else {
        match op {
            BSET => 0x70,
            BNOT => 0x71,
            BCLR => 0x72,
            BTST => 0x73,
            BOR | BIOR => 0x74,
            BXOR | BIXOR => 0x75,
            BAND | BIAND => 0x76,
            BLD | BILD => 0x77,
            _ => 0x67, // BST / BIST
        }
    }
}

fn inverted(op: u8) -> bool {
    op == BIST || op == BILD || op == BIAND || op == BIOR || op == BIXOR
}

fn writes(op: u8) -> bool {
    op == BSET || op == BCLR || op == BNOT || op == BST || op == BIST
}

/// Operand address is plain storage for the purposes of C04: accessible, not a port DDR/DR and not a
/// timer register (those are covered by C16/C17).
fn operand_ok(ea: u32) -> bool {
    mem::accessible(ea) && !mem::side_effect_reg(ea) && !(ea >= 0xffff60 && ea <= 0xffff9f)
}

pub fn bitop<S: Src>(s: &mut S, mode: u8, op: u8, loc: u8, from_rn: bool) {
    let mut c: Ctx = ih::begin(s, PC_RAM);
    let init = s.u8();
    // operation word offset: register form has none of the 7C-7F prefixes
    let o: usize = if loc == REG { 0 } else { 2 };
    let mut ea: u32 = 0;
    if loc == ERN {
        s.assume(c.code[0] == if writes(op) { 0x7d } else { 0x7c } && c.code[1] & 0x8f == 0);
        ea = c.pre.er[(c.code[1] >> 4) as usize] & 0xffffff;
    } else if loc == ABS8 {
        s.assume(c.code[0] == if writes(op) { 0x7f } else { 0x7e });
        ea = rm::ea_abs8(c.code[1]);
    }
    let ob = c.code[o + 1];
    s.assume(c.code[o] == op_byte(op, from_rn));
    if !from_rn {
        s.assume((ob & 0x80 != 0) == inverted(op));
    }
    if loc != REG {
        s.assume(ob & 0x0f == 0);
        s.assume(operand_ok(ea) && c.code_disjoint(ea, 1));
        c.window(0, ea, &[init]);
    }
    let frd = ob & 15;
    let n: u8 = if from_rn { rm::reg_read(&c.pre.er, 1, ob >> 4) as u8 & 7 } else { (ob >> 4) & 7 };
    let r = c.step();

    let v: u8 = if loc == REG { rm::reg_read(&c.pre.er, 1, frd) as u8 } else { init };
    let bit = (v >> n) & 1 != 0;
    let cin = c.pre.ccr & rm::C != 0;
    let m = 1u8 << n;
    let mut e = c.expect();
    let mut newv = v;
    match op {
        BSET => newv = v | m,
        BCLR => newv = v & !m,
        BNOT => newv = v ^ m,
        BST => newv = if cin { v | m } else { v & !m },
        BIST => newv = if !cin { v | m } else { v & !m },
        BTST => e.ccr = if bit { c.pre.ccr & !rm::Z } else { c.pre.ccr | rm::Z },
        _ => {
            let b = bit != inverted(op); // possibly inverted bit
            let nc = match op {
                BLD | BILD => b,
                BAND | BIAND => cin && b,
                BOR | BIOR => cin || b,
                _ => cin != b,
            };
            e.ccr = if nc { c.pre.ccr | rm::C } else { c.pre.ccr & !rm::C };
        }
    }
    if loc == REG {
        rm::reg_write(&mut e.er, 1, frd, newv as u64);
    }
    let len: u32 = if loc == REG { 2 } else { 4 };
    e.pc = c.pc0 + len;
    e.cyc(rm::K_I, (len / 2) as u8, c.pc0);
    if loc != REG {
        e.cyc(rm::K_L, if writes(op) { 2 } else { 1 }, ea);
    }
    let mut a = c.compare(&r, &e);
    if loc != REG && mem::win_byte(&c.cpu, 0, 0) != newv {
        a.mem = false;
    }
    let ok = r.is_ok();
    witness!(ok && bit && n == 7, "bit 7 set in operand");
    witness!(ok && !bit && n == 0 && v != 0, "bit 0 clear in non-zero operand");
    witness!(when: loc == ERN, ok && ea >= 0x400000 && ea <= 0x5fffff && c.pre.er[(c.code[1] >> 4) as usize] > 0xffffff, "operand in DRAM via register with upper byte");
    witness!(when: loc == ABS8, ok && ea >= 0xffffa0, "operand in the I/O register page");
    std::mem::forget(c);
    ih::conclude(a, mode);
}
