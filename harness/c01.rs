//! C01 — MOV.B/W/L in every addressing mode and direction (PUSH/POP are the @-ER7 / @ER7+ forms).
use crate::harness::ih::{self, Ctx};
use crate::harness::mem;
use crate::harness::refmodel as rm;
use crate::harness::src::Src;
use crate::harness::util::*;

pub const RN: u8 = 0;
pub const IMM: u8 = 1;
pub const ERN: u8 = 2;
pub const D16: u8 = 3;
pub const D24: u8 = 4;
pub const INCDEC: u8 = 5; // load: @ERs+   store: @-ERd
pub const A8: u8 = 6;
pub const A16: u8 = 7;
pub const A24: u8 = 8;

pub struct MovDec {
    pub fdata: u8, // data register field
    pub faddr: u8, // address register (memory modes)
    pub fsrc: u8,  // source register (RN)
    pub imm: u64,
    pub ea: u32,
    pub len: u32,
}

/// Constrains the code bytes to the manual's encoding of MOV.sz in addressing mode `am` / direction and
/// extracts the operand fields.  Returns the effective address for memory modes.
pub fn constrain<S: Src>(s: &mut S, c: &Ctx, sz: u8, am: u8, store: bool) -> MovDec {
    let mut d = MovDec { fdata: 0, faddr: 0, fsrc: 0, imm: 0, ea: 0, len: 2 };
    let er = &c.pre.er;
    // `o` = offset of the operation word (MOV.L memory forms carry the 0100 prefix)
    let o: usize = if sz == 4 && am != RN && am != IMM { 2 } else { 0 };
    if o == 2 {
        s.assume(c.code[0] == 0x01 && c.code[1] == 0x00);
    }
    let b0 = c.code[o];
    let b1 = c.code[o + 1];
    let dirbit: u8 = if store { 0x80 } else { 0x00 };
    let lmask: u8 = if sz == 4 { 0x08 } else { 0x00 }; // bit 3 of a 32-bit data register field is 0
    match am {
        RN => {
            if sz == 4 {
                s.assume(b0 == 0x0f && b1 & 0x88 == 0x80);
                d.fsrc = (b1 >> 4) & 7;
            } else {
                s.assume(b0 == if sz == 1 { 0x0c } else { 0x0d });
                d.fsrc = b1 >> 4;
            }
            d.fdata = b1 & 15;
            d.len = 2;
        }
        IMM => {
            if sz == 1 {
                s.assume(b0 >> 4 == 0xf);
                d.fdata = b0 & 15;
                d.imm = b1 as u64;
                d.len = 2;
            } else if sz == 2 {
                s.assume(b0 == 0x79 && b1 >> 4 == 0);
                d.fdata = b1 & 15;
                d.imm = c.w(1) as u64;
                d.len = 4;
            } else {
                s.assume(b0 == 0x7a && b1 & 0xf8 == 0);
                d.fdata = b1 & 7;
                d.imm = c.l(1) as u64;
                d.len = 6;
            }
        }
        ERN | D16 | INCDEC => {
            let opb = match (am, sz) {
                (ERN, 1) => 0x68,
                (ERN, _) => 0x69,
                (D16, 1) => 0x6e,
                (D16, _) => 0x6f,
                (_, 1) => 0x6c,
                _ => 0x6d,
            };
            s.assume(b0 == opb && b1 & 0x80 == dirbit && b1 & lmask == 0);
            d.faddr = (b1 >> 4) & 7;
            d.fdata = b1 & 15;
            let base = er[d.faddr as usize];
            d.len = o as u32 + 2;
            if am == ERN {
                d.ea = base & 0xffffff;
            } else if am == D16 {
                d.ea = rm::ea_disp16(base, c.w(o / 2 + 1));
                d.len += 2;
            } else if store {
                d.ea = base.wrapping_sub(sz as u32) & 0xffffff;
            } else {
                d.ea = base & 0xffffff;
            }
        }
        D24 => {
            // B/W: 78 0ers 0 | 6A/6B (2|A) r | 00 disp24      L: 0100 | 78 (0ers|1erd) 0 | 6B (2|A) 0er | 00 disp24
            let b2 = c.code[o + 2];
            let b3 = c.code[o + 3];
            s.assume(b0 == 0x78 && b1 & 0x0f == 0);
            if sz == 4 {
                s.assume(b1 & 0x80 == dirbit);
            } else {
                s.assume(b1 & 0x80 == 0);
            }
            s.assume(b2 == if sz == 1 { 0x6a } else { 0x6b });
            s.assume(b3 >> 4 == if store { 0xa } else { 0x2 } && b3 & lmask == 0);
            s.assume(c.code[o + 4] == 0);
            d.faddr = (b1 >> 4) & 7;
            d.fdata = b3 & 15;
            let disp = ((c.code[o + 5] as u32) << 16) | ((c.code[o + 6] as u32) << 8) | c.code[o + 7] as u32;
            d.ea = rm::ea_disp24(er[d.faddr as usize], disp);
            d.len = o as u32 + 8;
        }
        A8 => {
            s.assume(b0 >> 4 == if store { 3 } else { 2 });
            d.fdata = b0 & 15;
            d.ea = rm::ea_abs8(b1);
            d.len = 2;
        }
        A16 => {
            s.assume(b0 == if sz == 1 { 0x6a } else { 0x6b });
            s.assume(b1 >> 4 == if store { 0x8 } else { 0x0 } && b1 & lmask == 0);
            d.fdata = b1 & 15;
            d.ea = rm::ea_abs16(c.w(o / 2 + 1));
            d.len = o as u32 + 4;
        }
        _ => {
            // A24: op (2|A) r | 00 aa24
            s.assume(b0 == if sz == 1 { 0x6a } else { 0x6b });
            s.assume(b1 >> 4 == if store { 0xa } else { 0x2 } && b1 & lmask == 0);
            s.assume(c.code[o + 2] == 0);
            d.fdata = b1 & 15;
            d.ea = ((c.code[o + 3] as u32) << 16) | ((c.code[o + 4] as u32) << 8) | c.code[o + 5] as u32;
            d.len = o as u32 + 6;
        }
    }
    d
}

pub fn be_bytes(sz: u8, v: u64) -> [u8; 4] {
    match sz {
        1 => [v as u8, 0, 0, 0],
        2 => [(v >> 8) as u8, v as u8, 0, 0],
        _ => [(v >> 24) as u8, (v >> 16) as u8, (v >> 8) as u8, v as u8],
    }
}

pub fn from_be(sz: u8, b: &[u8; 4]) -> u64 {
    match sz {
        1 => b[0] as u64,
        2 => ((b[0] as u64) << 8) | b[1] as u64,
        _ => ((b[0] as u64) << 24) | ((b[1] as u64) << 16) | ((b[2] as u64) << 8) | b[3] as u64,
    }
}

/// MOV.sz in addressing mode `am`, load (`store == false`) or store direction.
pub fn mov<S: Src>(s: &mut S, mode: u8, sz: u8, am: u8, store: bool, pc: u32) {
    let mut c: Ctx = ih::begin(s, pc);
    let d = constrain(s, &c, sz, am, store);
    let memory = am != RN && am != IMM;
    let init = [s.u8(), s.u8(), s.u8(), s.u8()];
    let szl = sz as u32;
    if memory {
        // the property's quantifier: operand bytes in RAM / DRAM / vector area, even for W/L,
        // data register not overlapping the address register in the +/- forms
        s.assume(mem::plain_mem(d.ea) && mem::plain_mem(d.ea + szl - 1));
        s.assume(sz == 1 || d.ea & 1 == 0);
        s.assume(c.code_disjoint(d.ea, szl));
        if am == INCDEC {
            s.assume(d.fdata & 7 != d.faddr);
        }
        c.window(0, d.ea, &init[..sz as usize]);
    }
    let r = c.step();

    let mut e = c.expect();
    let bits = 8 * szl;
    let value: u64 = if am == RN {
        rm::reg_read(&c.pre.er, sz, d.fsrc)
    } else if am == IMM {
        d.imm
    } else if store {
        rm::reg_read(&c.pre.er, sz, d.fdata)
    } else {
        from_be(sz, &init)
    };
    if !store {
        rm::reg_write(&mut e.er, sz, d.fdata, value);
    }
    if am == INCDEC {
        let i = d.faddr as usize;
        e.er[i] = if store { c.pre.er[i].wrapping_sub(szl) } else { c.pre.er[i].wrapping_add(szl) };
    }
    e.ccr = rm::nz_clear_v(c.pre.ccr, bits, value);
    e.pc = c.pc0 + d.len;
    e.cyc(rm::K_I, (d.len / 2) as u8, c.pc0);
    if memory {
        match sz {
            1 => e.cyc(rm::K_L, 1, d.ea),
            2 => e.cyc(rm::K_M, 1, d.ea),
            _ => e.cyc(rm::K_M, 2, d.ea),
        }
        if am == INCDEC {
            e.cyc(rm::K_N, 2, c.pc0);
        }
    }
    let mut a = c.compare(&r, &e);
    if memory {
        let exp = if store { be_bytes(sz, value) } else { init };
        let mut i = 0;
        while i < sz as usize {
            if mem::win_byte(&c.cpu, 0, i) != exp[i] {
                a.mem = false;
            }
            i += 1;
        }
    }
    let ok = r.is_ok();
    let reg_based = am == ERN || am == D16 || am == D24 || am == INCDEC;
    witness!(when: reg_based || am == A24, ok && d.ea >= 0x400000 && d.ea < 0x600000 && value != 0, "operand in DRAM");
    witness!(when: am == A16, ok && d.ea <= 0xff && value != 0, "operand in the vector area");
    witness!(when: memory, ok && d.ea >= 0xffbf20 && value != 0, "operand in on-chip RAM");
    witness!(when: reg_based, ok && c.pre.er[d.faddr as usize] > 0xffffff, "address register with non-zero upper byte");
    witness!(when: !memory, ok && value != 0, "executed with non-zero value");
    std::mem::forget(c);
    ih::conclude(a, mode);
}
