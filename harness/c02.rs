//! C02 (arithmetic) and C03 (logic / shift / rotate): register-only instruction forms.
//! One generic body per operand shape; the wrappers pass literal constants, so each Kani harness is
//! specialised to one instruction form while all operand values, register fields and CCR stay symbolic.
use crate::harness::ih::{self, Ctx};
use crate::harness::refmodel as rm;
use crate::harness::src::Src;
use crate::harness::util::*;

// binary operations
pub const ADD: u8 = 0;
pub const SUB: u8 = 1;
pub const CMP: u8 = 2;
pub const ADDX: u8 = 3;
pub const AND: u8 = 4;
pub const OR: u8 = 5;
pub const XOR: u8 = 6;

fn b_imm_hi(op: u8) -> u8 {
    match op {
        ADD => 0x8,
        ADDX => 0x9,
        CMP => 0xa,
        OR => 0xc,
        XOR => 0xd,
        _ => 0xe, // AND
    }
}
fn b_reg_op(op: u8) -> u8 {
    match op {
        ADD => 0x08,
        SUB => 0x18,
        CMP => 0x1c,
        ADDX => 0x0e,
        AND => 0x16,
        OR => 0x14,
        _ => 0x15, // XOR
    }
}
fn wl_imm_k(op: u8) -> u8 {
    match op {
        ADD => 1,
        CMP => 2,
        SUB => 3,
        OR => 4,
        XOR => 5,
        _ => 6, // AND
    }
}
fn w_reg_op(op: u8) -> u8 {
    match op {
        ADD => 0x09,
        SUB => 0x19,
        CMP => 0x1d,
        AND => 0x66,
        OR => 0x64,
        _ => 0x65, // XOR
    }
}
fn l_reg_op(op: u8) -> u8 {
    match op {
        ADD => 0x0a,
        SUB => 0x1a,
        CMP => 0x1f,
        AND => 0x66,
        OR => 0x64,
        _ => 0x65, // XOR (after the 01F0 prefix)
    }
}

/// Two-operand ALU instruction `op.sz  #imm|Rs, Rd`.
pub fn alu2<S: Src>(s: &mut S, mode: u8, op: u8, sz: u8, imm: bool) {
    let mut c: Ctx = ih::begin(s, PC_RAM);
    let b0 = c.code[0];
    let b1 = c.code[1];
    let (mut fs, fd, mut immv, len): (u8, u8, u64, u32);
    fs = 0;
    immv = 0;
    if sz == 1 && imm {
        s.assume(b0 >> 4 == b_imm_hi(op));
        fd = b0 & 15;
        immv = b1 as u64;
        len = 2;
    } else if sz == 1 {
        s.assume(b0 == b_reg_op(op));
        fs = b1 >> 4;
        fd = b1 & 15;
        len = 2;
    } else if sz == 2 && imm {
        s.assume(b0 == 0x79 && b1 >> 4 == wl_imm_k(op));
        fd = b1 & 15;
        immv = c.w(1) as u64;
        len = 4;
    } else if sz == 2 {
        s.assume(b0 == w_reg_op(op));
        fs = b1 >> 4;
        fd = b1 & 15;
        len = 2;
    } else if imm {
        s.assume(b0 == 0x7a && b1 >> 4 == wl_imm_k(op) && b1 & 8 == 0);
        fd = b1 & 7;
        immv = c.l(1) as u64;
        len = 6;
    } else if op == AND || op == OR || op == XOR {
        s.assume(b0 == 0x01 && b1 == 0xf0 && c.code[2] == l_reg_op(op) && c.code[3] & 0x88 == 0);
        fs = c.code[3] >> 4;
        fd = c.code[3] & 7;
        len = 4;
    } else {
        s.assume(b0 == l_reg_op(op) && b1 & 0x88 == 0x80);
        fs = (b1 >> 4) & 7;
        fd = b1 & 7;
        len = 2;
    }
    let r = c.step();

    let bits = 8 * sz as u32;
    let a = rm::reg_read(&c.pre.er, sz, fd);
    let b = if imm { immv } else { rm::reg_read(&c.pre.er, sz, fs) };
    let mut e = c.expect();
    match op {
        ADD => {
            let (res, f) = rm::add(bits, a, b, 0);
            rm::reg_write(&mut e.er, sz, fd, res);
            e.ccr = rm::put_flags(c.pre.ccr, rm::H | rm::N | rm::Z | rm::V | rm::C, &f);
        }
        SUB => {
            let (res, f) = rm::sub(bits, a, b, 0);
            rm::reg_write(&mut e.er, sz, fd, res);
            e.ccr = rm::put_flags(c.pre.ccr, rm::H | rm::N | rm::Z | rm::V | rm::C, &f);
        }
        CMP => {
            let (_res, f) = rm::sub(bits, a, b, 0);
            e.ccr = rm::put_flags(c.pre.ccr, rm::H | rm::N | rm::Z | rm::V | rm::C, &f);
        }
        ADDX => {
            let cin = (c.pre.ccr & rm::C) as u64;
            let (res, mut f) = rm::add(bits, a, b, cin);
            // Z: previous value remains if the result is zero, cleared otherwise
            f.z = f.z && (c.pre.ccr & rm::Z != 0);
            rm::reg_write(&mut e.er, sz, fd, res);
            e.ccr = rm::put_flags(c.pre.ccr, rm::H | rm::N | rm::Z | rm::V | rm::C, &f);
        }
        AND | OR | XOR => {
            let res = match op {
                AND => a & b,
                OR => a | b,
                _ => a ^ b,
            };
            rm::reg_write(&mut e.er, sz, fd, res);
            e.ccr = rm::nz_clear_v(c.pre.ccr, bits, res);
        }
        _ => {}
    }
    e.pc = c.pc0 + len;
    e.cyc(rm::K_I, (len / 2) as u8, c.pc0);
    let a_ = c.compare(&r, &e);
    witness!(r.is_ok() && a != 0 && b != 0, "executed with non-zero operands");
    std::mem::forget(c);
    ih::conclude(a_, mode);
}

// unary operations on a register
pub const NEG: u8 = 0;
pub const NOT: u8 = 1;
pub const EXTU: u8 = 2;
pub const INC: u8 = 3; // k = 1 / 2
pub const DEC: u8 = 4;
pub const ADDS: u8 = 5; // k = 1 / 2 / 4, always 32 bit
pub const SUBS: u8 = 6;
pub const SHLL: u8 = 7;
pub const SHAL: u8 = 8;
pub const SHLR: u8 = 9;
pub const SHAR: u8 = 10;
pub const ROTXL: u8 = 11;
pub const ROTL: u8 = 12;
pub const ROTXR: u8 = 13;
pub const ROTR: u8 = 14;

/// One-operand instruction `b0 (hi rd)`; `sem` selects the reference semantics, `k` the INC/DEC/ADDS/SUBS amount.
pub fn alu1<S: Src>(s: &mut S, mode: u8, b0: u8, hi: u8, sz: u8, sem: u8, k: u8) {
    let mut c: Ctx = ih::begin(s, PC_RAM);
    s.assume(c.code[0] == b0 && c.code[1] >> 4 == hi);
    if sz == 4 {
        s.assume(c.code[1] & 8 == 0);
    }
    let fd = c.code[1] & 15;
    let r = c.step();

    let bits = 8 * sz as u32;
    let m = rm::mask(bits);
    let sign = 1u64 << (bits - 1);
    let a = rm::reg_read(&c.pre.er, sz, fd);
    let cin = (c.pre.ccr & rm::C) as u64;
    let mut e = c.expect();
    let all = rm::H | rm::N | rm::Z | rm::V | rm::C;
    let nzv = rm::N | rm::Z | rm::V;
    let nzvc = rm::N | rm::Z | rm::V | rm::C;
    match sem {
        NEG => {
            let (res, f) = rm::sub(bits, 0, a, 0);
            rm::reg_write(&mut e.er, sz, fd, res);
            e.ccr = rm::put_flags(c.pre.ccr, all, &f);
        }
        NOT => {
            let res = !a & m;
            rm::reg_write(&mut e.er, sz, fd, res);
            e.ccr = rm::nz_clear_v(c.pre.ccr, bits, res);
        }
        EXTU => {
            let res = a & rm::mask(bits / 2);
            rm::reg_write(&mut e.er, sz, fd, res);
            e.ccr = rm::nz_clear_v(c.pre.ccr, bits, res);
        }
        INC => {
            let (res, f) = rm::add(bits, a, k as u64, 0);
            rm::reg_write(&mut e.er, sz, fd, res);
            e.ccr = rm::put_flags(c.pre.ccr, nzv, &f);
        }
        DEC => {
            let (res, f) = rm::sub(bits, a, k as u64, 0);
            rm::reg_write(&mut e.er, sz, fd, res);
            e.ccr = rm::put_flags(c.pre.ccr, nzv, &f);
        }
        ADDS => {
            rm::reg_write(&mut e.er, 4, fd, (a + k as u64) & m);
        }
        SUBS => {
            rm::reg_write(&mut e.er, 4, fd, a.wrapping_sub(k as u64) & m);
        }
        _ => {
            let msb = (a >> (bits - 1)) & 1;
            let lsb = a & 1;
            let (res, cout) = match sem {
                SHLL | SHAL => ((a << 1) & m, msb),
                SHLR => (a >> 1, lsb),
                SHAR => ((a >> 1) | (a & sign), lsb),
                ROTXL => (((a << 1) | cin) & m, msb),
                ROTL => (((a << 1) | msb) & m, msb),
                ROTXR => ((a >> 1) | (cin << (bits - 1)), lsb),
                _ => ((a >> 1) | (lsb << (bits - 1)), lsb), // ROTR
            };
            let f = rm::Flags {
                h: false,
                n: res & sign != 0,
                z: res == 0,
                // SHAL: V = 1 iff the sign bit changes (bit n-1 of the source differs from bit n-2)
                v: sem == SHAL && ((res & sign != 0) != (a & sign != 0)),
                c: cout != 0,
            };
            rm::reg_write(&mut e.er, sz, fd, res);
            e.ccr = rm::put_flags(c.pre.ccr, nzvc, &f);
        }
    }
    e.pc = c.pc0 + 2;
    e.cyc(rm::K_I, 1, c.pc0);
    let mut a_ = c.compare(&r, &e);
    if sem == SHAL {
        // recorded defect: the emulator sets V from the old sign bit alone (pinned by the repo's own
        // tests); gate accepts exactly that wrong value: CCR equal to the expected one except V = old msb
        let wrong_v = if a & sign != 0 { rm::V } else { 0 };
        let known_wrong = c.cpu.vh_ccr() == ((e.ccr & !rm::V) | wrong_v);
        a_.ccr = match sz {
            1 => kf!(KF_C03_SHAL_B_V, known_wrong, a_.ccr),
            2 => kf!(KF_C03_SHAL_W_V, known_wrong, a_.ccr),
            _ => kf!(KF_C03_SHAL_L_V, known_wrong, a_.ccr),
        };
    }
    witness!(r.is_ok() && a != 0 && a != m, "executed with a non-trivial operand");
    std::mem::forget(c);
    ih::conclude(a_, mode);
}

/// MULXU.B Rs,Rd (sz=1: 8x8->16) / MULXU.W Rs,ERd (sz=2: 16x16->32).  No flag changes.
pub fn mulxu<S: Src>(s: &mut S, mode: u8, sz: u8) {
    let mut c: Ctx = ih::begin(s, PC_RAM);
    s.assume(c.code[0] == if sz == 1 { 0x50 } else { 0x52 });
    if sz == 2 {
        s.assume(c.code[1] & 8 == 0);
    }
    let fs = c.code[1] >> 4;
    let fd = c.code[1] & 15;
    let r = c.step();
    let mut e = c.expect();
    let bits = 8 * sz as u32;
    let multiplicand = rm::reg_read(&c.pre.er, 2 * sz, fd) & rm::mask(bits);
    let multiplier = rm::reg_read(&c.pre.er, sz, fs);
    rm::reg_write(&mut e.er, 2 * sz, fd, multiplicand * multiplier);
    e.pc = c.pc0 + 2;
    e.cyc(rm::K_I, 1, c.pc0);
    e.cyc(rm::K_N, if sz == 1 { 12 } else { 20 }, c.pc0);
    let a_ = c.compare(&r, &e);
    witness!(r.is_ok() && multiplicand > 1 && multiplier > 1, "non-trivial product");
    std::mem::forget(c);
    ih::conclude(a_, mode);
}

/// DIVXU.B Rs,Rd (16/8) / DIVXU.W Rs,ERd (32/16); precondition: divisor != 0, quotient fits.
pub fn divxu<S: Src>(s: &mut S, mode: u8, sz: u8, divisor_bits: u32) {
    let mut c: Ctx = ih::begin(s, PC_RAM);
    s.assume(c.code[0] == if sz == 1 { 0x51 } else { 0x53 });
    if sz == 2 {
        s.assume(c.code[1] & 8 == 0);
    }
    let fs = c.code[1] >> 4;
    let fd = c.code[1] & 15;
    let bits = 8 * sz as u32;
    let dividend = rm::reg_read(&c.pre.er, 2 * sz, fd);
    let divisor = rm::reg_read(&c.pre.er, sz, fs);
    s.assume(divisor != 0);
    // stated bound of the quick tier for DIVXU.W: divisor below 2^divisor_bits (the full 32/16-bit query
    // did not finish in 30 minutes with three different formulations of the reference)
    s.assume(divisor < (1u64 << divisor_bits));
    // quotient fits  <=>  dividend < divisor * 2^bits  (no division needed to state it)
    s.assume(dividend < (divisor << bits));
    let r = c.step();
    // The result is characterised by the Euclidean division relation on the emulator's own output
    //   quotient * divisor + remainder == dividend  and  remainder < divisor
    // (unique solution).  Comparing against a second divider instead makes CaDiCaL prove divider
    // uniqueness: 246-450 s for 16/8 bits, no answer in 30 min for 32/16 bits (measured).
    let got = rm::reg_read(&c.cpu.er, 2 * sz, fd);
    let q = got & rm::mask(bits);
    let rem = got >> bits;
    let ok_div = q * divisor + rem == dividend && rem < divisor;
    let mut e = c.expect();
    rm::reg_write(&mut e.er, 2 * sz, fd, got);
    let f = rm::Flags { h: false, n: divisor >> (bits - 1) != 0, z: false, v: false, c: false };
    e.ccr = rm::put_flags(c.pre.ccr, rm::N | rm::Z, &f);
    e.pc = c.pc0 + 2;
    e.cyc(rm::K_I, 1, c.pc0);
    e.cyc(rm::K_N, if sz == 1 { 12 } else { 20 }, c.pc0);
    let mut a_ = c.compare(&r, &e);
    a_.regs = a_.regs && ok_div;
    witness!(r.is_ok() && q > 1 && rem > 0, "non-trivial quotient and remainder");
    std::mem::forget(c);
    ih::conclude(a_, mode);
}
