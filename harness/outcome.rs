//! Native-side collection of harness outcomes (replay binary).  Unused under Kani.

pub static mut FAILED: Vec<&'static str> = Vec::new();
pub static mut WITNESSED: Vec<&'static str> = Vec::new();
pub static mut KNOWN: Vec<(&'static str, bool)> = Vec::new();

#[allow(static_mut_refs)]
pub fn fail(name: &'static str) {
    unsafe { FAILED.push(name) }
}

#[allow(static_mut_refs)]
pub fn witness(name: &'static str) {
    unsafe { WITNESSED.push(name) }
}

#[allow(static_mut_refs)]
pub fn known(id: &'static str, listed: bool) {
    unsafe { KNOWN.push((id, listed)) }
}

#[allow(static_mut_refs)]
pub fn reset() {
    unsafe {
        FAILED.clear();
        WITNESSED.clear();
        KNOWN.clear();
    }
}
