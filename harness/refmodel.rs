//! Reference semantics written from the H8/300H programming manual and the H8/3069F hardware
//! manual (bus controller).  Shares no code with the emulator.

// ---------------------------------------------------------------- bus-cycle cost (C19)

pub const K_I: u8 = 0; // instruction fetch (word)
pub const K_J: u8 = 1; // branch address read (word)
pub const K_K: u8 = 2; // stack operation (word)
pub const K_L: u8 = 3; // byte data access
pub const K_M: u8 = 4; // word data access
pub const K_N: u8 = 5; // internal operation

pub struct BusCfg {
    pub abwcr: u8,
    pub astcr: u8,
    pub wcrh: u8,
    pub wcrl: u8,
    pub drcra: u8,
}

pub fn on_chip_ram(addr: u32) -> bool {
    addr >= 0xffbf20 && addr <= 0xffff1f
}

pub fn io_register(addr: u32) -> bool {
    (addr >= 0xfee000 && addr <= 0xfee0ff) || (addr >= 0xffff20 && addr <= 0xffffe9)
}

/// DRAM space per DRCRA DRAS2..0 (H8/3069F hardware manual 6.2.6).
pub fn is_dram_area(area: u8, drcra: u8) -> bool {
    let sel = drcra >> 5;
    match area {
        2 => sel >= 1,
        3 => sel >= 2,
        4 => sel >= 4,
        5 => sel >= 5,
        _ => false,
    }
}

pub fn wait_states(area: u8, cfg: &BusCfg) -> u8 {
    if area < 4 {
        (cfg.wcrl >> (2 * area)) & 3
    } else {
        (cfg.wcrh >> (2 * (area - 4))) & 3
    }
}

/// States for ONE bus cycle of `kind` at `addr` (addr < 2^24).
pub fn cycle_cost(kind: u8, addr: u32, cfg: &BusCfg) -> u8 {
    if kind == K_N {
        return 1;
    }
    if on_chip_ram(addr) {
        return 2;
    }
    let area = (addr >> 21) as u8;
    let per_access = if is_dram_area(area, cfg.drcra) {
        4 + wait_states(area, cfg)
    } else if (cfg.astcr >> area) & 1 == 0 {
        2
    } else {
        3 + wait_states(area, cfg)
    };
    let eight_bit = (cfg.abwcr >> area) & 1 == 1;
    let word_kind = kind != K_L;
    if eight_bit && word_kind {
        2 * per_access
    } else {
        per_access
    }
}

// ---------------------------------------------------------------- ALU reference (H8/300H programming manual)

#[derive(Clone, Copy)]
pub struct Flags {
    pub h: bool,
    pub n: bool,
    pub z: bool,
    pub v: bool,
    pub c: bool,
}

#[inline]
pub fn mask(bits: u32) -> u64 {
    (1u64 << bits) - 1
}

/// a + b + cin on `bits` bits (8/16/32).  H = carry out of bit 3 / 11 / 27.
pub fn add(bits: u32, a: u64, b: u64, cin: u64) -> (u64, Flags) {
    let m = mask(bits);
    let full = a + b + cin;
    let res = full & m;
    let hm = mask(bits - 4);
    let sign = 1u64 << (bits - 1);
    let f = Flags {
        h: ((a & hm) + (b & hm) + cin) >> (bits - 4) != 0,
        n: res & sign != 0,
        z: res == 0,
        v: ((a ^ res) & (b ^ res) & sign) != 0,
        c: (full >> bits) != 0,
    };
    (res, f)
}

/// a - b - bin on `bits` bits.  H = borrow into bit 3 / 11 / 27, C = borrow out.
pub fn sub(bits: u32, a: u64, b: u64, bin: u64) -> (u64, Flags) {
    let m = mask(bits);
    let res = a.wrapping_sub(b).wrapping_sub(bin) & m;
    let hm = mask(bits - 4);
    let sign = 1u64 << (bits - 1);
    let f = Flags {
        h: (a & hm) < (b & hm) + bin,
        n: res & sign != 0,
        z: res == 0,
        v: ((a ^ b) & (a ^ res) & sign) != 0,
        c: a < b + bin,
    };
    (res, f)
}

pub const C: u8 = 0x01;
pub const V: u8 = 0x02;
pub const Z: u8 = 0x04;
pub const N: u8 = 0x08;
pub const U: u8 = 0x10;
pub const H: u8 = 0x20;
pub const UI: u8 = 0x40;
pub const I: u8 = 0x80;

/// Replaces the CCR bits in `affected` by the corresponding flags.
pub fn put_flags(ccr: u8, affected: u8, f: &Flags) -> u8 {
    let mut v = 0u8;
    if f.h { v |= H; }
    if f.n { v |= N; }
    if f.z { v |= Z; }
    if f.v { v |= V; }
    if f.c { v |= C; }
    (ccr & !affected) | (v & affected)
}

/// N,Z from value; V cleared (MOV, logic ops).
pub fn nz_clear_v(ccr: u8, bits: u32, val: u64) -> u8 {
    let f = Flags { h: false, n: val & (1u64 << (bits - 1)) != 0, z: val & mask(bits) == 0, v: false, c: false };
    put_flags(ccr, N | Z | V, &f)
}

// ---------------------------------------------------------------- register-file helpers (size-generic)

/// Reads a size-`sz` (1/2/4 bytes) register by its field (4-bit B/W field, 3-bit L field).
pub fn reg_read(er: &[u32; 8], sz: u8, f: u8) -> u64 {
    let r = er[(f & 7) as usize];
    match sz {
        1 => (if f & 8 == 0 { (r >> 8) & 0xff } else { r & 0xff }) as u64,
        2 => (if f & 8 == 0 { r & 0xffff } else { r >> 16 }) as u64,
        _ => r as u64,
    }
}

pub fn reg_write(er: &mut [u32; 8], sz: u8, f: u8, v: u64) {
    let i = (f & 7) as usize;
    match sz {
        1 => {
            if f & 8 == 0 {
                er[i] = (er[i] & 0xffff00ff) | (((v & 0xff) as u32) << 8);
            } else {
                er[i] = (er[i] & 0xffffff00) | (v & 0xff) as u32;
            }
        }
        2 => {
            if f & 8 == 0 {
                er[i] = (er[i] & 0xffff0000) | (v & 0xffff) as u32;
            } else {
                er[i] = (er[i] & 0x0000ffff) | (((v & 0xffff) as u32) << 16);
            }
        }
        _ => er[i] = v as u32,
    }
}

// ---------------------------------------------------------------- Bcc condition table
pub fn cond(cc: u8, ccr: u8) -> bool {
    let c = ccr & C != 0;
    let v = ccr & V != 0;
    let z = ccr & Z != 0;
    let n = ccr & N != 0;
    match cc & 15 {
        0 => true,            // BRA (BT)
        1 => false,           // BRN (BF)
        2 => !(c || z),       // BHI
        3 => c || z,          // BLS
        4 => !c,              // BCC (BHS)
        5 => c,               // BCS (BLO)
        6 => !z,              // BNE
        7 => z,               // BEQ
        8 => !v,              // BVC
        9 => v,               // BVS
        10 => !n,             // BPL
        11 => n,              // BMI
        12 => n == v,         // BGE
        13 => n != v,         // BLT
        14 => !(z || (n != v)), // BGT
        _ => z || (n != v),   // BLE
    }
}

// ---------------------------------------------------------------- addresses

pub fn sext16(d: u16) -> u32 {
    d as i16 as i32 as u32
}
pub fn sext24(d: u32) -> u32 {
    if d & 0x800000 != 0 { d | 0xff000000 } else { d & 0x00ffffff }
}
pub fn ea_disp16(base: u32, d: u16) -> u32 {
    base.wrapping_add(sext16(d)) & 0xffffff
}
pub fn ea_disp24(base: u32, d: u32) -> u32 {
    base.wrapping_add(sext24(d)) & 0xffffff
}
pub fn ea_abs8(aa: u8) -> u32 {
    0xffff00 | aa as u32
}
pub fn ea_abs16(aa: u16) -> u32 {
    sext16(aa) & 0xffffff
}

/// Areas / regions between which the cost of a bus cycle can differ (C19): two addresses of the
/// same class always cost the same.  255 = not a 24-bit address (the cost function rejects it).
pub fn cost_class(addr: u32) -> u8 {
    if addr > 0xffffff {
        255
    } else if on_chip_ram(addr) {
        8
    } else if addr >= 0xfee000 && addr <= 0xfee0ff {
        9
    } else if addr >= 0xffff20 && addr <= 0xffffe9 {
        10
    } else {
        (addr >> 21) as u8
    }
}

// ---------------------------------------------------------------- UTF-8 (RFC 3629), up to 8 bytes

pub const UTF8_MAX: usize = 8;

/// True iff the first `len` (<= 8) bytes of `b` are well-formed UTF-8.
pub fn valid_utf8(b: &[u8; UTF8_MAX], len: usize) -> bool {
    let mut i = 0usize;
    let mut ok = true;
    let mut guard = 0;
    while i < len && guard < UTF8_MAX {
        guard += 1;
        let x = b[i];
        let rest = len - i;
        let cont = |k: usize| -> bool { i + k < len && b[i + k] & 0xc0 == 0x80 };
        if x < 0x80 {
            i += 1;
        } else if x >= 0xc2 && x <= 0xdf {
            if rest >= 2 && cont(1) { i += 2; } else { ok = false; i = len; }
        } else if x >= 0xe0 && x <= 0xef {
            let lo = if x == 0xe0 { 0xa0 } else { 0x80 };
            let hi = if x == 0xed { 0x9f } else { 0xbf };
            if rest >= 3 && b[i + 1] >= lo && b[i + 1] <= hi && cont(2) { i += 3; } else { ok = false; i = len; }
        } else if x >= 0xf0 && x <= 0xf4 {
            let lo = if x == 0xf0 { 0x90 } else { 0x80 };
            let hi = if x == 0xf4 { 0x8f } else { 0xbf };
            if rest >= 4 && b[i + 1] >= lo && b[i + 1] <= hi && cont(2) && cont(3) { i += 4; } else { ok = false; i = len; }
        } else {
            ok = false;
            i = len;
        }
    }
    ok
}
