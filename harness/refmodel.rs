//! Reference semantics written from the H8/300H programming manual and the H8/3069F hardware
//! manual (bus controller).  Shares no code with the emulator.

// ---------------------------------------------------------------- bus-cycle cost (C19)

pub const K_I: u8 = 0; // instruction fetch (word)
pub const K_J: u8 = 1; // branch address read (word)
pub const K_K: u8 = 2; // stack operation (word)
pub const K_L: u8 = 3; // byte data access
pub const K_M: u8 = 4; // word data access
pub const K_N: u8 = 5; // internal operation

pub struct BusCfg {
    pub abwcr: u8,
    pub astcr: u8,
    pub wcrh: u8,
    pub wcrl: u8,
    pub drcra: u8,
}

pub fn on_chip_ram(addr: u32) -> bool {
    addr >= 0xffbf20 && addr <= 0xffff1f
}

pub fn io_register(addr: u32) -> bool {
    (addr >= 0xfee000 && addr <= 0xfee0ff) || (addr >= 0xffff20 && addr <= 0xffffe9)
}

/// DRAM space per DRCRA DRAS2..0 (H8/3069F hardware manual 6.2.6).
pub fn is_dram_area(area: u8, drcra: u8) -> bool {
    let sel = drcra >> 5;
    match area {
        2 => sel >= 1,
        3 => sel >= 2,
        4 => sel >= 4,
        5 => sel >= 5,
        _ => false,
    }
}

pub fn wait_states(area: u8, cfg: &BusCfg) -> u8 {
    if area < 4 {
        (cfg.wcrl >> (2 * area)) & 3
    } else {
        (cfg.wcrh >> (2 * (area - 4))) & 3
    }
}

/// States for ONE bus cycle of `kind` at `addr` (addr < 2^24).
pub fn cycle_cost(kind: u8, addr: u32, cfg: &BusCfg) -> u8 {
    if kind == K_N {
        return 1;
    }
    if on_chip_ram(addr) {
        return 2;
    }
    let area = (addr >> 21) as u8;
    let per_access = if is_dram_area(area, cfg.drcra) {
        4 + wait_states(area, cfg)
    } else if (cfg.astcr >> area) & 1 == 0 {
        2
    } else {
        3 + wait_states(area, cfg)
    };
    let eight_bit = (cfg.abwcr >> area) & 1 == 1;
    let word_kind = kind != K_L;
    if eight_bit && word_kind {
        2 * per_access
    } else {
        per_access
    }
}
