//! C07 — instructions the emulator does not implement must stop execution with an error for every
//! encoding, register content and memory content; they are never executed as another instruction.
//! (Implemented encodings are decided form by form in C01-C06/C08: aspects `route`, `pc`, `outcome`.)
use crate::harness::ghost;
use crate::harness::ih::{self, Ctx};
use crate::harness::src::Src;
use crate::harness::util::*;

pub const NOP: u8 = 0;
pub const SLEEP: u8 = 1;
pub const LDC_IMM: u8 = 2;
pub const LDC_RS: u8 = 3;
pub const LOGIC_C: u8 = 4; // ANDC / ORC / XORC
pub const LDC_W: u8 = 5; // LDC.W <memory>,CCR (0140 prefix, load direction)
pub const SUBX: u8 = 6;
pub const DAA: u8 = 7;
pub const DAS: u8 = 8;
pub const EXTS: u8 = 9;
pub const MULDIVXS: u8 = 10;
pub const EEPMOV: u8 = 11;
pub const MOVFPE: u8 = 12; // MOVFPE / MOVTPE

pub fn unimplemented<S: Src>(s: &mut S, fam: u8) {
    let mut c: Ctx = ih::begin(s, PC_RAM);
    let (b0, b1, b2, b3) = (c.code[0], c.code[1], c.code[2], c.code[3]);
    let w0 = c.w(0);
    let w1 = c.w(1);
    let w2 = c.w(2);
    let valid = match fam {
        NOP => w0 == 0x0000,
        SLEEP => w0 == 0x0180,
        LDC_IMM => b0 == 0x07,
        LDC_RS => b0 == 0x03 && b1 >> 4 == 0,
        LOGIC_C => b0 == 0x04 || b0 == 0x05 || b0 == 0x06,
        LDC_W => {
            w0 == 0x0140
                && (((b2 == 0x69 || b2 == 0x6f || b2 == 0x6d) && b3 & 0x8f == 0)
                    || (b2 == 0x78 && b3 & 0x8f == 0 && w2 == 0x6b20)
                    || w1 == 0x6b00
                    || w1 == 0x6b20)
        }
        SUBX => b0 >> 4 == 0xb || b0 == 0x1e,
        DAA => b0 == 0x0f && b1 >> 4 == 0,
        DAS => b0 == 0x1f && b1 >> 4 == 0,
        EXTS => b0 == 0x17 && (b1 >> 4 == 0xd || (b1 >> 4 == 0xf && b1 & 8 == 0)),
        MULDIVXS => {
            (w0 == 0x01c0 && (b2 == 0x50 || (b2 == 0x52 && b3 & 8 == 0))) || (w0 == 0x01d0 && (b2 == 0x51 || (b2 == 0x53 && b3 & 8 == 0)))
        }
        EEPMOV => (w0 == 0x7b5c || w0 == 0x7bd4) && w1 == 0x598f,
        _ => b0 == 0x6a && (b1 >> 4 == 0x4 || b1 >> 4 == 0xc),
    };
    s.assume(valid);
    // no data window: every mapped read returns a pre-drawn arbitrary byte, writes are dropped
    let r = c.step();
    let ok_err = r.is_err();
    let ok_route = ghost::called() == 0;
    witness!(r.is_err() || r.is_ok(), "executed");
    witness!(when: fam == LDC_W, w1 == 0x6950, "LDC.W @ER5,CCR");
    witness!(when: fam == DAA, w1 & 0xff00 == 0x6900, "DAA followed by a word that looks like a MOV.L operation word");
    std::mem::forget(c);
    verdict!("rejected" => ok_err, "route" => ok_route);
}
