//! C16 — I/O ports on the real `Bus` (register arrays are real; only the outgoing message is captured).
use crate::bus::Bus;
use crate::cpu::Cpu;
use crate::harness::src::Src;
use anyhow::Result;

pub const MSG_MAX: usize = 6;
pub static mut MSG_N: usize = 0;
pub static mut MSG: [(u8, u8, usize); MSG_MAX] = [(0, 0, 0); MSG_MAX];

/// Stub for `Bus::send_io_port_value` (Kani only): records (port, value, time stamp).
pub fn ghost_send_io_port_value(b: &mut Bus, port: u8, value: u8) -> Result<()> {
    unsafe {
        if MSG_N < MSG_MAX {
            MSG[MSG_N] = (port, value, b.cpu_state_sum);
        }
        MSG_N += 1;
    }
    Ok(())
}

#[cfg(not(kani))]
pub static mut NATIVE_RX: Option<std::sync::mpsc::Receiver<String>> = None;

fn attach(cpu: &mut Cpu) {
    unsafe {
        MSG_N = 0;
        MSG = [(0, 0, 0); MSG_MAX];
    }
    #[cfg(not(kani))]
    {
        let (tx, rx) = std::sync::mpsc::channel::<String>();
        cpu.bus.message_tx = Some(tx);
        unsafe { NATIVE_RX = Some(rx) };
    }
    let _ = cpu;
}

#[allow(static_mut_refs)]
fn collect() {
    #[cfg(not(kani))]
    unsafe {
        if let Some(rx) = &NATIVE_RX {
            for m in rx.try_iter() {
                let parts: Vec<&str> = m.split(':').collect();
                if parts.len() == 4 && parts[0] == "ioport" {
                    let p = u8::from_str_radix(parts[1], 16).unwrap_or(0xee);
                    let v = u8::from_str_radix(parts[2], 16).unwrap_or(0xee);
                    let t = parts[3].parse::<usize>().unwrap_or(usize::MAX);
                    if MSG_N < MSG_MAX {
                        MSG[MSG_N] = (p, v, t);
                    }
                    MSG_N += 1;
                } else {
                    MSG_N += 100;
                }
            }
        }
    }
}

fn ddr_idx(port: u8) -> usize {
    port as usize - 1
}
fn dr_idx(port: u8) -> usize {
    0xb0 + port as usize - 1 // H'FFFFD0 - H'FFFF20
}

pub const OP_DDR: u8 = 0;
pub const OP_DR: u8 = 1;
pub const OP_PIN: u8 = 2;

/// One operation on port `p` from an arbitrary state (DDR, data latch, pins), a second port `q`
/// untouched.  True model: DR reads (latch & DDR) | (pin & !DDR); output = latch & DDR.
pub fn single_op<S: Src>(s: &mut S) {
    let p = s.u8();
    let q = s.u8();
    let (ddr, latch, pin) = (s.u8(), s.u8(), s.u8());
    let (qddr, qdr, qpin) = (s.u8(), s.u8(), s.u8());
    let op = s.u8();
    let v = s.u8();
    let t = s.u16() as usize;
    s.assume(p >= 1 && p <= 11 && q >= 1 && q <= 11 && p != q && op <= 2);
    let mut cpu = Cpu::new();
    // emulator state representing the model state: DDR register, DR register = current read-back value
    let rb0 = (latch & ddr) | (pin & !ddr);
    cpu.bus.io_registrs1[ddr_idx(p)] = ddr;
    cpu.bus.io_registrs2[dr_idx(p)] = rb0;
    cpu.bus.io_port_in[p as usize - 1] = pin;
    cpu.bus.io_registrs1[ddr_idx(q)] = qddr;
    cpu.bus.io_registrs2[dr_idx(q)] = qdr;
    cpu.bus.io_port_in[q as usize - 1] = qpin;
    cpu.bus.cpu_state_sum = t;
    attach(&mut cpu);
    let (mut nd, mut nl, mut np) = (ddr, latch, pin);
    let mut r: Result<()> = Ok(());
    // the three operations as `Bus::write` / the control channel perform them (routing: `routing` harness)
    if op == OP_DDR {
        nd = v;
        if v != ddr {
            r = cpu.bus.on_write_ddr(0xfee000 + p as u32 - 1, v);
        }
    } else if op == OP_DR {
        nl = v;
        if v != rb0 {
            r = cpu.bus.on_write_dr(0xffffd0 + p as u32 - 1, v);
        }
    } else {
        np = v;
        cpu.bus.write_port(p, v);
    }
    collect();
    let rb = cpu.bus.io_registrs2[dr_idx(p)];
    let exp_rb = (nl & nd) | (np & !nd);
    let out0 = latch & ddr;
    let out1 = nl & nd;
    let ok_outcome = r.is_ok();
    // DR read-back, the DDR register and the recorded external level of the port
    let mut ok_readback = rb == exp_rb && cpu.bus.io_registrs1[ddr_idx(p)] == nd && cpu.bus.io_port_in[p as usize - 1] == np;
    let n = unsafe { MSG_N };
    let last = if n >= 1 && n <= MSG_MAX { unsafe { MSG[n - 1] } } else { (0, 0, 0) };
    // last announced value == current output whenever something was announced; a change must be announced
    let mut ok_msg = n <= MSG_MAX && (n == 0 || (last.0 == p && last.1 == out1 && last.2 == t)) && (out1 == out0 || n >= 1);
    // recorded defect: the emulator keeps no data latch for input bits, so a bit switched from input
    // to output shows / announces the pin level instead of the value the CPU last wrote to DR
    let newly_out = nd & !ddr;
    let lost = op == OP_DDR && newly_out & (latch ^ pin) != 0;
    let latchless_rb = (rb0 & nd) | (np & !nd);
    let known_wrong = lost && rb == latchless_rb && (n == 0 || (last.0 == p && last.1 == latchless_rb & nd));
    ok_readback = kf!(KF_C16_NO_INPUT_LATCH_READBACK, known_wrong, ok_readback);
    ok_msg = kf!(KF_C16_NO_INPUT_LATCH_MESSAGE, known_wrong, ok_msg);
    let ok_other = cpu.bus.io_registrs1[ddr_idx(q)] == qddr && cpu.bus.io_registrs2[dr_idx(q)] == qdr && cpu.bus.io_port_in[q as usize - 1] == qpin;
    witness!(op == OP_PIN && ddr == 0xf0 && v == 0xff && pin == 0, "external input on a half-output port");
    witness!(op == OP_DR && out1 != out0 && p == 11, "output change on port B");
    witness!(op == OP_DDR && !lost && out1 != out0, "direction change that changes the output");
    std::mem::forget(cpu);
    verdict!("outcome" => ok_outcome, "readback" => ok_readback, "message" => ok_msg, "other_port" => ok_other);
}

/// `Bus::write` routing at the concrete port `p` (real `Bus::write`): three operations from reset with
/// symbolic kinds and values; after every step DR reads per the model and the announcement is right.
/// A neighbouring non-port register is written too and must stay plain storage.
pub const DEPTH_MAX: usize = 5;

pub fn history3<S: Src>(s: &mut S, p: u8, depth: usize) {
    let ops = [s.u8(), s.u8(), s.u8(), s.u8(), s.u8()];
    let vals = [s.u8(), s.u8(), s.u8(), s.u8(), s.u8()];
    let nb = s.u8();
    s.assume(ops[0] <= 2 && ops[1] <= 2 && ops[2] <= 2 && ops[3] <= 2 && ops[4] <= 2);
    let mut cpu = Cpu::new();
    attach(&mut cpu);
    let q: u8 = if p == 1 { 2 } else { 1 };
    let (mut d, mut l, mut pin) = (0u8, 0u8, 0u8);
    // the recorded latch-less behaviour (known-finding gate only): DR register = read-back value
    let mut e_dr = 0u8;
    let mut e_ann: Option<u8> = None;
    let mut ok_outcome = true;
    let mut ok_readback = true;
    let mut ok_msg = true;
    let mut known_rb = true;
    let mut known_msg = true;
    let mut lost_any = false;
    let mut announced: Option<u8> = None;
    let mut seen = 0usize;
    let mut k = 0;
    while k < depth && k < DEPTH_MAX {
        let v = vals[k];
        let out0 = l & d;
        if ops[k] == OP_DDR {
            if v & !d & (l ^ pin) != 0 {
                lost_any = true;
            }
            if v != d {
                e_dr = (e_dr & v) | (!v & pin);
                e_ann = Some(e_dr & v);
            }
            d = v;
            if cpu.bus.write(0xfee000 + p as u32 - 1, v).is_err() {
                ok_outcome = false;
            }
        } else if ops[k] == OP_DR {
            l = v;
            if v != e_dr {
                e_dr = (v & d) | (!d & pin);
                e_ann = Some(v & d);
            }
            if cpu.bus.write(0xffffd0 + p as u32 - 1, v).is_err() {
                ok_outcome = false;
            }
        } else {
            pin = v;
            e_dr = (e_dr & d) | (!d & v);
            cpu.bus.write_port(p, v);
        }
        collect();
        let n = unsafe { MSG_N };
        if n > seen && n <= MSG_MAX {
            let m = unsafe { MSG[n - 1] };
            if m.0 != p {
                ok_msg = false;
                known_msg = false;
            }
            announced = Some(m.1);
        }
        seen = n;
        let out1 = l & d;
        if (out1 != out0 || announced.is_some()) && announced != Some(out1) {
            ok_msg = false;
        }
        if announced != e_ann {
            known_msg = false;
        }
        match cpu.bus.read(0xffffd0 + p as u32 - 1) {
            Ok(rb) => {
                if rb != (l & d) | (pin & !d) {
                    ok_readback = false;
                }
                if rb != e_dr {
                    known_rb = false;
                }
            }
            Err(_) => ok_outcome = false,
        }
        k += 1;
    }
    // neighbour of the DR block is plain storage and the other port is untouched
    let r_nb = cpu.bus.write(0xffffdb, nb);
    let ok_other = r_nb.is_ok()
        && cpu.bus.read(0xffffdb).ok() == Some(nb)
        && cpu.bus.read(0xffffd0 + q as u32 - 1).ok() == Some(0)
        && cpu.bus.read(0xfee000 + q as u32 - 1).ok() == Some(0)
        && unsafe { MSG_N } == seen;
    ok_readback = kf!(KF_C16_NO_INPUT_LATCH_HISTORY, lost_any && known_rb, ok_readback);
    ok_msg = kf!(KF_C16_NO_INPUT_LATCH_HISTORY_MSG, lost_any && known_msg, ok_msg);
    witness!(ok_outcome && !lost_any && ops[0] == OP_DDR && ops[1] == OP_DR && ops[2] == OP_PIN && vals[0] == 0x0f && vals[1] == 0xaa, "DDR, DR, pin sequence");
    witness!(lost_any, "DR written while input, then switched to output");
    std::mem::forget(cpu);
    verdict!("outcome" => ok_outcome, "readback" => ok_readback, "message" => ok_msg, "other" => ok_other);
}
