//! C11 / C12 — the ELF loader's REAL nom parsers, one harness per record type, on fully symbolic bytes.
//! Reference: the ELF32 specification's field offsets, big-endian.  Reached through the guarded
//! re-exports in /repo/src/elf/verif_hooks.rs (the parser modules are private to `elf`).
use crate::elf::verif_hooks as eh;
use crate::harness::src::Src;

fn be16(b: &[u8], o: usize) -> u16 {
    ((b[o] as u16) << 8) | b[o + 1] as u16
}
fn be32(b: &[u8], o: usize) -> u32 {
    ((b[o] as u32) << 24) | ((b[o + 1] as u32) << 16) | ((b[o + 2] as u32) << 8) | b[o + 3] as u32
}

fn draw<const N: usize, S: Src>(s: &mut S) -> [u8; N] {
    // N is a multiple of 4: one 32-bit draw per word keeps the harness loop (and with it the global
    // unwinding bound) short
    let mut b = [0u8; N];
    let mut i = 0;
    while i < N / 4 {
        let w = s.u32().to_le_bytes();
        b[4 * i] = w[0];
        b[4 * i + 1] = w[1];
        b[4 * i + 2] = w[2];
        b[4 * i + 3] = w[3];
        i += 1;
    }
    b
}

/// ELF header: 52 bytes + 4 trailing bytes, everything after the magic number symbolic.
pub fn header<S: Src>(s: &mut S) {
    let mut raw: [u8; 56] = draw::<56, S>(s);
    let magic_ok = s.bool();
    if magic_ok {
        raw[0] = 0x7f;
        raw[1] = b'E';
        raw[2] = b'L';
        raw[3] = b'F';
    } else {
        s.assume(raw[0] != 0x7f || raw[1] != b'E' || raw[2] != b'L' || raw[3] != b'F');
    }
    let r = eh::parse_elf_header32(&raw);
    let ok_outcome = r.is_ok() == magic_ok;
    let mut ok_fields = true;
    let mut ok_rest = true;
    if let Ok((rest, hd)) = r {
        ok_fields = hd.e_type == be16(&raw, 16)
            && hd.machine == be16(&raw, 18)
            && hd.version == be32(&raw, 20)
            && hd.entry == be32(&raw, 24)
            && hd.phoff == be32(&raw, 28)
            && hd.shoff == be32(&raw, 32)
            && hd.flags == be32(&raw, 36)
            && hd.ehsize == be16(&raw, 40)
            && hd.phentsize == be16(&raw, 42)
            && hd.phnum == be16(&raw, 44)
            && hd.shentsize == be16(&raw, 46)
            && hd.shnum == be16(&raw, 48)
            && hd.shstrndx == be16(&raw, 50)
            && hd.ident.abi_version == raw[8]
            && (hd.ident.class == eh::ElfClass::Bit32) == (raw[4] == 1)
            && (hd.ident.data == eh::ElfData::Msb) == (raw[5] == 2);
        ok_rest = rest.len() == 4 && rest[0] == raw[52] && rest[3] == raw[55];
        witness!(hd.phoff == 0x12345678 && hd.shnum == 0xfedc, "asymmetric field values");
    } else {
        witness!(!magic_ok, "bad magic rejected");
    }
    verdict!("outcome" => ok_outcome, "fields" => ok_fields, "rest" => ok_rest);
}

/// Program header table with two entries (64 bytes + 4 trailing).
pub fn program_headers<S: Src>(s: &mut S) {
    let raw: [u8; 68] = draw::<68, S>(s);
    let r = eh::parse_program_header_table32(2)(&raw);
    let ok_outcome = r.is_ok();
    let mut ok_fields = true;
    let mut ok_rest = true;
    if let Ok((rest, v)) = r {
        ok_fields = v.len() == 2;
        if v.len() == 2 {
            let mut k = 0;
            while k < 2 {
                let o = 32 * k;
                let p = &v[k];
                if !((p.ty == eh::SegmentType::Load) == (be32(&raw, o) == 1)
                    && (p.ty == eh::SegmentType::Note) == (be32(&raw, o) == 4)
                    && p.offset == be32(&raw, o + 4)
                    && p.virtual_addr == be32(&raw, o + 8)
                    && p.physical_addr == be32(&raw, o + 12)
                    && p.size_in_file == be32(&raw, o + 16)
                    && p.size_in_mem == be32(&raw, o + 20)
                    && p.flags == be32(&raw, o + 24)
                    && p.align == be32(&raw, o + 28))
                {
                    ok_fields = false;
                }
                k += 1;
            }
            witness!(v[1].virtual_addr == 0x01020304 && v[0].size_in_file == 0x0a0b0c0d, "asymmetric field values");
        }
        ok_rest = rest.len() == 4 && rest[0] == raw[64];
        std::mem::forget(v);
    }
    verdict!("outcome" => ok_outcome, "fields" => ok_fields, "rest" => ok_rest);
}

/// Section header table with two entries (80 bytes + 4 trailing).
pub fn section_headers<S: Src>(s: &mut S) {
    let raw: [u8; 84] = draw::<84, S>(s);
    let r = eh::parse_section_header_table32(2)(&raw);
    let ok_outcome = r.is_ok();
    let mut ok_fields = true;
    let mut ok_rest = true;
    if let Ok((rest, v)) = r {
        ok_fields = v.len() == 2;
        if v.len() == 2 {
            let mut k = 0;
            while k < 2 {
                let o = 40 * k;
                let h = &v[k];
                if !(h.name_idx == be32(&raw, o)
                    && (h.ty == eh::SectionType::SymTab) == (be32(&raw, o + 4) == 2)
                    && h.flags == be32(&raw, o + 8)
                    && h.addr == be32(&raw, o + 12)
                    && h.offset == be32(&raw, o + 16)
                    && h.size == be32(&raw, o + 20)
                    && h.link == be32(&raw, o + 24)
                    && h.info == be32(&raw, o + 28)
                    && h.addr_align == be32(&raw, o + 32)
                    && h.entry_size == be32(&raw, o + 36))
                {
                    ok_fields = false;
                }
                k += 1;
            }
            witness!(v[1].addr == 0x01020304 && v[0].entry_size == 0x10, "asymmetric field values");
        }
        ok_rest = rest.len() == 4 && rest[0] == raw[80];
        std::mem::forget(v);
    }
    verdict!("outcome" => ok_outcome, "fields" => ok_fields, "rest" => ok_rest);
}

/// Symbol table with two entries (32 bytes + 4 trailing).
pub fn symbols<S: Src>(s: &mut S) {
    let raw: [u8; 36] = draw::<36, S>(s);
    let r = eh::parse_symbol_table32(2)(&raw);
    let ok_outcome = r.is_ok();
    let mut ok_fields = true;
    let mut ok_rest = true;
    if let Ok((rest, v)) = r {
        ok_fields = v.len() == 2;
        if v.len() == 2 {
            let mut k = 0;
            while k < 2 {
                let o = 16 * k;
                let y = &v[k];
                if !(y.name_idx == be32(&raw, o)
                    && y.value == be32(&raw, o + 4)
                    && y.size == be32(&raw, o + 8)
                    && y.info == raw[o + 12]
                    && y.other == raw[o + 13]
                    && y.shndx == be16(&raw, o + 14))
                {
                    ok_fields = false;
                }
                k += 1;
            }
            witness!(v[1].value == 0x01020304 && v[0].name_idx == 7, "asymmetric field values");
        }
        ok_rest = rest.len() == 4 && rest[0] == raw[32];
        std::mem::forget(v);
    }
    verdict!("outcome" => ok_outcome, "fields" => ok_fields, "rest" => ok_rest);
}

pub const NAME_MAX: usize = 6;

/// String-table entry: the name is the run of graphic ASCII bytes at the start, and the entry is
/// accepted iff that run is followed by a NUL inside the buffer.
pub fn string_entry<S: Src>(s: &mut S) {
    let raw: [u8; 8] = draw::<8, S>(s);
    let buf = &raw[..NAME_MAX];
    let mut k = NAME_MAX;
    let mut i = NAME_MAX;
    while i > 0 {
        i -= 1;
        let c = buf[i];
        if !(c > 0x20 && c < 0x7f) {
            k = i;
        }
    }
    let exp_ok = k < NAME_MAX && buf[k] == 0;
    let r = eh::parse_string_table_entry(buf);
    let ok_outcome = r.is_ok() == exp_ok;
    let mut ok_name = true;
    if let Ok((rest, name)) = r {
        let nb = name.as_bytes();
        ok_name = nb.len() == k && rest.len() == NAME_MAX - k - 1;
        i = 0;
        while i < NAME_MAX {
            if i < k && i < nb.len() && nb[i] != buf[i] {
                ok_name = false;
            }
            i += 1;
        }
        witness!(k == 4 && nb.len() == 4, "a four-character name");
        witness!(k == 0, "the empty name");
        std::mem::forget(name);
    } else {
        witness!(k == NAME_MAX, "no terminator inside the buffer");
        witness!(k < NAME_MAX && buf[k] == b' ', "a blank ends the name without a terminator");
    }
    verdict!("outcome" => ok_outcome, "name" => ok_name);
}
