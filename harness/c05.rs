//! C05 — Bcc / JMP / BSR / JSR / RTS, and C06 — TRAPA / interrupt entry / RTE.
use crate::harness::ih::{self, Ctx};
use crate::harness::mem;
use crate::harness::refmodel as rm;
use crate::harness::src::Src;
use crate::harness::util::*;

/// Bcc d:8 (wide == false) / Bcc d:16 (wide == true): condition number, CCR and displacement symbolic.
pub fn bcc<S: Src>(s: &mut S, mode: u8, wide: bool, pc: u32) {
    let mut c: Ctx = ih::begin(s, pc);
    let (cc, disp, len): (u8, u32, u32);
    if wide {
        s.assume(c.code[0] == 0x58 && c.code[1] & 0x0f == 0);
        cc = c.code[1] >> 4;
        disp = rm::sext16(c.w(1));
        len = 4;
    } else {
        s.assume(c.code[0] >> 4 == 4);
        cc = c.code[0] & 15;
        disp = c.code[1] as i8 as i32 as u32;
        len = 2;
    }
    s.assume(disp & 1 == 0);
    let next = c.pc0 + len;
    let target = next.wrapping_add(disp);
    // the property speaks about targets inside the 24-bit space (no wrap at either end)
    s.assume(target <= 0xffffff && (disp as i32 >= 0 || target < next));
    let r = c.step();
    let taken = rm::cond(cc, c.pre.ccr);
    let mut e = c.expect();
    e.pc = if taken { target } else { next };
    e.cyc(rm::K_I, 2, c.pc0);
    if wide {
        e.cyc(rm::K_N, 2, c.pc0);
    }
    let a = c.compare(&r, &e);
    let ok = r.is_ok();
    witness!(ok && taken && cc >= 2 && (disp as i32) < 0, "conditional branch taken backwards");
    witness!(ok && !taken && cc >= 2, "conditional branch not taken");
    witness!(ok && cc == 14 && taken, "BGT taken");
    std::mem::forget(c);
    ih::conclude(a, mode);
}

/// Position independence of branch-target arithmetic: `pc_disp8` / `pc_disp16` with a symbolic PC.
pub fn pc_disp_lemma<S: Src>(s: &mut S, wide: bool) {
    let mut cpu = mk_cpu(s, 0);
    let pc = s.u32();
    let d16 = s.u16();
    s.assume(pc <= 0xffffff && pc & 1 == 0);
    let disp: u32 = if wide { rm::sext16(d16) } else { d16 as u8 as i8 as i32 as u32 };
    let target = pc.wrapping_add(disp);
    cpu.vh_set_pc(pc);
    let r = if wide { cpu.vh_pc_disp16(d16) } else { cpu.vh_pc_disp8(d16 as u8) };
    let in_range = target <= 0xffffff && ((disp as i32) >= 0 || target < pc);
    let even = disp & 1 == 0;
    // in-range even targets: exact; odd targets are an error, never a wrong PC
    let ok_even = !(in_range && even) || (r.is_ok() && cpu.vh_pc() == target);
    let ok_odd = !(in_range && !even) || r.is_err() || cpu.vh_pc() == target;
    witness!(r.is_ok() && in_range && (disp as i32) < 0 && pc >= 0x400000 && pc < 0x600000, "backward branch in DRAM");
    witness!(r.is_err(), "error path reached");
    std::mem::forget(cpu);
    verdict!("even_target" => ok_even, "odd_target" => ok_odd);
}

/// `fetch()` with a symbolic (even, mapped) PC: reads the two bytes at PC big-endian, advances PC by 2,
/// touches nothing else.
pub fn fetch_lemma<S: Src>(s: &mut S) {
    let mut c: Ctx = ih::begin(s, 0);
    let pc = s.u32();
    s.assume(pc & 1 == 0 && mem::plain_mem(pc));
    c.cpu.vh_set_pc(pc);
    let code = c.code;
    mem::set_code(&mut c.cpu, pc, &code[..2]);
    mem::seal(&mut c.cpu);
    let before = snap(&c.cpu);
    let w = c.cpu.vh_fetch();
    let ok_word = w == ((code[0] as u16) << 8 | code[1] as u16);
    let ok_pc = c.cpu.vh_pc() == pc + 2;
    let ok_frame = regs_eq(&before.er, &c.cpu.er) && c.cpu.vh_ccr() == before.ccr && !mem::stray(&c.cpu);
    witness!(pc >= 0x400000 && pc < 0x600000 && w == 0x5470, "fetch of RTS from DRAM");
    witness!(pc <= 0xff, "fetch from the vector area");
    std::mem::forget(c);
    verdict!("word" => ok_word, "pc" => ok_pc, "frame" => ok_frame);
}

pub const JMP_ERN: u8 = 0;
pub const JMP_ABS: u8 = 1;
pub const JMP_IND: u8 = 2;

pub fn jmp<S: Src>(s: &mut S, mode: u8, kind: u8) {
    let mut c: Ctx = ih::begin(s, PC_RAM);
    let vec = [s.u8(), s.u8(), s.u8(), s.u8()];
    let target: u32;
    let len: u32;
    let mut va: u32 = 0;
    if kind == JMP_ERN {
        s.assume(c.code[0] == 0x59 && c.code[1] & 0x8f == 0);
        target = c.pre.er[(c.code[1] >> 4) as usize] & 0xffffff;
        len = 2;
    } else if kind == JMP_ABS {
        s.assume(c.code[0] == 0x5a);
        target = ((c.code[1] as u32) << 16) | c.w(1) as u32;
        len = 4;
    } else {
        s.assume(c.code[0] == 0x5b && c.code[1] & 1 == 0 && c.code[1] <= 0xfc);
        va = c.code[1] as u32; // @@aa:8: the address is aa itself, in H'000000-H'0000FF
        c.window(0, va, &vec);
        target = (((vec[1] as u32) << 16) | ((vec[2] as u32) << 8) | vec[3] as u32) & 0xffffff;
        len = 2;
    }
    let r = c.step();
    let mut e = c.expect();
    e.pc = target;
    e.cyc(rm::K_I, 2, c.pc0);
    if kind == JMP_ABS {
        e.cyc(rm::K_N, 2, c.pc0);
    }
    if kind == JMP_IND {
        e.cyc(rm::K_J, 2, va);
        e.cyc(rm::K_N, 2, c.pc0);
    }
    let mut a = c.compare(&r, &e);
    if kind == JMP_IND {
        let mut i = 0;
        while i < 4 {
            if mem::win_byte(&c.cpu, 0, i) != vec[i] {
                a.mem = false;
            }
            i += 1;
        }
    }
    let ok = r.is_ok();
    let _ = len;
    witness!(when: kind == JMP_ERN, ok && c.pre.er[(c.code[1] >> 4) as usize] > 0xffffff, "target register with non-zero upper byte");
    witness!(when: kind == JMP_IND, ok && vec[0] != 0 && va == 0xfc, "vector entry with non-zero top byte at H'FC");
    witness!(ok && target >= 0x400000, "jump executed");
    std::mem::forget(c);
    ih::conclude(a, mode);
}

pub const BSR8: u8 = 0;
pub const BSR16: u8 = 1;
pub const JSR_ERN: u8 = 2;
pub const JSR_ABS: u8 = 3;
pub const JSR_IND: u8 = 4;

pub struct CallDec {
    pub target: u32,
    pub len: u32,
    pub va: u32,
}

/// Constrains the code to the call form `kind`; `vec` is the content of the vector entry (JSR @@aa:8).
fn constrain_call<S: Src>(s: &mut S, c: &Ctx, kind: u8, vec: &[u8; 4]) -> CallDec {
    let mut d = CallDec { target: 0, len: 2, va: 0 };
    match kind {
        BSR8 => {
            s.assume(c.code[0] == 0x55 && c.code[1] & 1 == 0);
            d.len = 2;
            d.target = (c.pc0 + 2).wrapping_add(c.code[1] as i8 as i32 as u32);
        }
        BSR16 => {
            s.assume(c.code[0] == 0x5c && c.code[1] == 0 && c.code[3] & 1 == 0);
            d.len = 4;
            d.target = (c.pc0 + 4).wrapping_add(rm::sext16(c.w(1)));
            s.assume(d.target <= 0xffffff);
        }
        JSR_ERN => {
            // JSR @ER7 is left out: the manual does not say which SP value is used
            s.assume(c.code[0] == 0x5d && c.code[1] & 0x8f == 0 && c.code[1] >> 4 != 7);
            d.len = 2;
            d.target = c.pre.er[(c.code[1] >> 4) as usize] & 0xffffff;
        }
        JSR_ABS => {
            s.assume(c.code[0] == 0x5e);
            d.len = 4;
            d.target = ((c.code[1] as u32) << 16) | c.w(1) as u32;
        }
        _ => {
            s.assume(c.code[0] == 0x5f && c.code[1] & 1 == 0 && c.code[1] <= 0xfc);
            d.len = 2;
            d.va = c.code[1] as u32;
            d.target = (((vec[1] as u32) << 16) | ((vec[2] as u32) << 8) | vec[3] as u32) & 0xffffff;
        }
    }
    d
}

fn call_keepable_sp<S: Src>(s: &mut S, c: &Ctx, sp: u32) -> u32 {
    // stack pointer anywhere in plain memory (upper byte of ER7 arbitrary), even, frame below it mapped
    let fa = sp.wrapping_sub(4) & 0xffffff;
    s.assume(sp & 1 == 0);
    s.assume(mem::plain_mem(fa) && mem::plain_mem(fa + 3));
    s.assume(c.code_disjoint(fa, 4));
    fa
}

fn expect_call(c: &Ctx, e: &mut ih::Expect, kind: u8, d: &CallDec, fa: u32) {
    e.er[7] = c.pre.er[7].wrapping_sub(4);
    e.pc = d.target;
    e.cyc(rm::K_I, 2, c.pc0);
    match kind {
        BSR8 | JSR_ERN => e.cyc(rm::K_K, 2, fa),
        BSR16 | JSR_ABS => {
            e.cyc(rm::K_K, 2, fa);
            e.cyc(rm::K_N, 2, c.pc0);
        }
        _ => {
            e.cyc(rm::K_J, 2, d.va);
            e.cyc(rm::K_K, 2, fa);
        }
    }
}

/// BSR / JSR: one 4-byte big-endian frame at SP-4 whose low 24 bits are the return address.
pub fn call<S: Src>(s: &mut S, mode: u8, kind: u8) {
    let mut c: Ctx = ih::begin(s, PC_RAM);
    let vec = [s.u8(), s.u8(), s.u8(), s.u8()];
    let init = [s.u8(), s.u8(), s.u8(), s.u8()];
    let d = constrain_call(s, &c, kind, &vec);
    let fa = call_keepable_sp(s, &c, c.pre.er[7]);
    c.window(0, fa, &init);
    if kind == JSR_IND {
        s.assume(mem::disjoint(fa, 4, d.va, 4));
        c.window(1, d.va, &vec);
    }
    let r = c.step();
    let mut e = c.expect();
    expect_call(&c, &mut e, kind, &d, fa);
    let mut a = c.compare(&r, &e);
    let ret = c.pc0 + d.len;
    if mem::win_byte(&c.cpu, 0, 1) != (ret >> 16) as u8 || mem::win_byte(&c.cpu, 0, 2) != (ret >> 8) as u8 || mem::win_byte(&c.cpu, 0, 3) != ret as u8 {
        a.mem = false;
    }
    if kind == JSR_IND {
        let mut i = 0;
        while i < 4 {
            if mem::win_byte(&c.cpu, 1, i) != vec[i] {
                a.mem = false;
            }
            i += 1;
        }
    }
    let ok = r.is_ok();
    witness!(ok && c.pre.er[7] > 0xffffff && fa >= 0x400000 && fa < 0x600000, "stack in DRAM, ER7 with non-zero upper byte");
    witness!(ok && fa >= 0xffbf20, "stack in on-chip RAM");
    witness!(when: kind == JSR_IND, ok && vec[0] != 0, "vector entry with non-zero top byte");
    std::mem::forget(c);
    ih::conclude(a, mode);
}

/// RTS: PC from the low 24 bits of the frame at SP, SP += 4.
pub fn rts<S: Src>(s: &mut S, mode: u8) {
    let mut c: Ctx = ih::begin(s, PC_RAM);
    let fr = [s.u8(), s.u8(), s.u8(), s.u8()];
    s.assume(c.code[0] == 0x54 && c.code[1] == 0x70);
    let sp = c.pre.er[7];
    let fa = sp & 0xffffff;
    s.assume(sp & 1 == 0 && mem::plain_mem(fa) && mem::plain_mem(fa + 3) && c.code_disjoint(fa, 4));
    c.window(0, fa, &fr);
    let r = c.step();
    let mut e = c.expect();
    e.er[7] = sp.wrapping_add(4);
    e.pc = ((fr[1] as u32) << 16) | ((fr[2] as u32) << 8) | fr[3] as u32;
    e.cyc(rm::K_I, 2, c.pc0);
    e.cyc(rm::K_K, 2, fa);
    e.cyc(rm::K_N, 2, c.pc0);
    let mut a = c.compare(&r, &e);
    let mut i = 0;
    while i < 4 {
        if mem::win_byte(&c.cpu, 0, i) != fr[i] {
            a.mem = false;
        }
        i += 1;
    }
    let ok = r.is_ok();
    witness!(ok && sp > 0xffffff && fr[0] != 0, "ER7 with non-zero upper byte, frame with non-zero top byte");
    std::mem::forget(c);
    ih::conclude(a, mode);
}

/// Two steps: a call form followed by RTS at the call target resumes right after the call with SP, all
/// registers, CCR and all memory outside the frame as before.
pub fn call_then_rts<S: Src>(s: &mut S, kind: u8) {
    let mut c: Ctx = ih::begin(s, PC_RAM);
    let vec = [s.u8(), s.u8(), s.u8(), s.u8()];
    let init = [s.u8(), s.u8(), s.u8(), s.u8()];
    let d = constrain_call(s, &c, kind, &vec);
    let fa = call_keepable_sp(s, &c, c.pre.er[7]);
    c.window(0, fa, &init);
    // the callee: RTS at the call target
    s.assume(d.target & 1 == 0 && mem::plain_mem(d.target) && mem::plain_mem(d.target + 1));
    s.assume(c.code_disjoint(d.target, 2) && mem::disjoint(fa, 4, d.target, 2));
    c.window(1, d.target, &[0x54, 0x70]);
    if kind == JSR_IND {
        s.assume(mem::disjoint(fa, 4, d.va, 4) && mem::disjoint(d.target, 2, d.va, 4));
        c.window(2, d.va, &vec);
    }
    let r1 = c.step();
    let mid_pc = c.cpu.vh_pc();
    let r2 = c.cpu.vh_step();
    let ok_outcome = r1.is_ok() && r2.is_ok();
    let ok_route = crate::harness::ghost::called() == 0;
    let ok_mid = mid_pc == d.target;
    let ok_pc = c.cpu.vh_pc() == c.pc0 + d.len;
    let ok_regs = regs_eq(&c.cpu.er, &c.pre.er);
    let ok_ccr = c.cpu.vh_ccr() == c.pre.ccr;
    let mut ok_mem = !mem::stray(&c.cpu) && mem::win_byte(&c.cpu, 1, 0) == 0x54 && mem::win_byte(&c.cpu, 1, 1) == 0x70;
    if kind == JSR_IND {
        let mut i = 0;
        while i < 4 {
            if mem::win_byte(&c.cpu, 2, i) != vec[i] {
                ok_mem = false;
            }
            i += 1;
        }
    }
    witness!(ok_outcome && c.pre.er[7] > 0xffffff, "round trip with ER7 upper byte non-zero");
    std::mem::forget(c);
    verdict!("outcome" => ok_outcome, "route" => ok_route, "callee_entered" => ok_mid, "pc" => ok_pc, "regs" => ok_regs,
             "ccr" => ok_ccr, "mem" => ok_mem);
}

// ------------------------------------------------------------------------------------------ C06

fn ccr_after_entry_ok(got: u8, pre: u8) -> bool {
    // I set; no other flag changes except (optionally) UI
    got == pre | rm::I || got == pre | rm::I | rm::UI
}

/// TRAPA #1..#3.
pub fn trapa<S: Src>(s: &mut S, mode: u8) {
    let mut c: Ctx = ih::begin(s, PC_RAM);
    let vec = [s.u8(), s.u8(), s.u8(), s.u8()];
    let init = [s.u8(), s.u8(), s.u8(), s.u8()];
    s.assume(c.code[0] == 0x57 && c.code[1] & 0xcf == 0 && c.code[1] >> 4 != 0);
    let n = (c.code[1] >> 4) as u32;
    let va = 4 * (8 + n);
    let fa = call_keepable_sp(s, &c, c.pre.er[7]);
    s.assume(mem::disjoint(fa, 4, va, 4));
    c.window(0, fa, &init);
    c.window(1, va, &vec);
    let r = c.step();
    let mut e = c.expect();
    e.er[7] = c.pre.er[7].wrapping_sub(4);
    e.pc = ((vec[1] as u32) << 16) | ((vec[2] as u32) << 8) | vec[3] as u32;
    e.ccr = c.cpu.vh_ccr(); // checked separately (UI may or may not be set)
    e.cyc(rm::K_I, 2, c.pc0);
    e.cyc(rm::K_J, 2, va);
    e.cyc(rm::K_K, 2, fa);
    e.cyc(rm::K_N, 4, c.pc0);
    let mut a = c.compare(&r, &e);
    a.ccr = ccr_after_entry_ok(c.cpu.vh_ccr(), c.pre.ccr);
    let ret = c.pc0 + 2;
    if mem::win_byte(&c.cpu, 0, 0) != c.pre.ccr
        || mem::win_byte(&c.cpu, 0, 1) != (ret >> 16) as u8
        || mem::win_byte(&c.cpu, 0, 2) != (ret >> 8) as u8
        || mem::win_byte(&c.cpu, 0, 3) != ret as u8
    {
        a.mem = false;
    }
    let mut i = 0;
    while i < 4 {
        if mem::win_byte(&c.cpu, 1, i) != vec[i] {
            a.mem = false;
        }
        i += 1;
    }
    let ok = r.is_ok();
    witness!(ok && n == 3 && vec[0] != 0 && c.pre.ccr & rm::I == 0, "TRAPA #3, vector top byte non-zero, I clear before");
    witness!(ok && c.pre.er[7] > 0xffffff && fa >= 0x400000 && fa < 0x600000, "stack in DRAM with ER7 upper byte");
    std::mem::forget(c);
    ih::conclude(a, mode);
}

/// Interrupt acceptance for vector 1..=63 (through the hook around `Cpu::interrupt`).
pub fn interrupt<S: Src>(s: &mut S) {
    let mut c: Ctx = ih::begin(s, 0);
    let vec = [s.u8(), s.u8(), s.u8(), s.u8()];
    let init = [s.u8(), s.u8(), s.u8(), s.u8()];
    let v = s.u8();
    let pc = s.u32();
    s.assume(v >= 1 && v <= 63);
    s.assume(pc <= 0xffffff && pc & 1 == 0);
    c.cpu.vh_set_pc(pc);
    let va = 4 * v as u32;
    let sp = c.pre.er[7];
    let fa = sp.wrapping_sub(4) & 0xffffff;
    s.assume(sp & 1 == 0 && mem::plain_mem(fa) && mem::plain_mem(fa + 3) && mem::disjoint(fa, 4, va, 4));
    c.window(0, fa, &init);
    c.window(1, va, &vec);
    mem::seal(&mut c.cpu);
    let pre = snap(&c.cpu);
    let r = c.cpu.vh_interrupt(v);
    let mut exp_er = pre.er;
    exp_er[7] = sp.wrapping_sub(4);
    let ok_outcome = r.is_ok();
    let ok_regs = regs_eq(&c.cpu.er, &exp_er);
    let ok_ccr = ccr_after_entry_ok(c.cpu.vh_ccr(), pre.ccr);
    let ok_pc = c.cpu.vh_pc() == ((vec[1] as u32) << 16) | ((vec[2] as u32) << 8) | vec[3] as u32;
    let mut ok_mem = !mem::stray(&c.cpu)
        && mem::win_byte(&c.cpu, 0, 0) == pre.ccr
        && mem::win_byte(&c.cpu, 0, 1) == (pc >> 16) as u8
        && mem::win_byte(&c.cpu, 0, 2) == (pc >> 8) as u8
        && mem::win_byte(&c.cpu, 0, 3) == pc as u8;
    let mut i = 0;
    while i < 4 {
        if mem::win_byte(&c.cpu, 1, i) != vec[i] {
            ok_mem = false;
        }
        i += 1;
    }
    witness!(ok_outcome && v == 63 && vec[0] != 0, "vector 63 with non-zero top byte");
    witness!(ok_outcome && v == 1 && sp > 0xffffff, "vector 1, ER7 upper byte non-zero");
    std::mem::forget(c);
    verdict!("outcome" => ok_outcome, "regs" => ok_regs, "ccr" => ok_ccr, "pc" => ok_pc, "mem" => ok_mem);
}

/// RTE: CCR and PC from the frame at SP, SP += 4.
pub fn rte<S: Src>(s: &mut S, mode: u8) {
    let mut c: Ctx = ih::begin(s, PC_RAM);
    let fr = [s.u8(), s.u8(), s.u8(), s.u8()];
    s.assume(c.code[0] == 0x56 && c.code[1] == 0x70);
    let sp = c.pre.er[7];
    let fa = sp & 0xffffff;
    s.assume(sp & 1 == 0 && mem::plain_mem(fa) && mem::plain_mem(fa + 3) && c.code_disjoint(fa, 4));
    c.window(0, fa, &fr);
    let r = c.step();
    let mut e = c.expect();
    e.er[7] = sp.wrapping_add(4);
    e.ccr = fr[0];
    e.pc = ((fr[1] as u32) << 16) | ((fr[2] as u32) << 8) | fr[3] as u32;
    e.cyc(rm::K_I, 2, c.pc0);
    e.cyc(rm::K_K, 2, fa);
    e.cyc(rm::K_N, 2, c.pc0);
    let mut a = c.compare(&r, &e);
    let mut i = 0;
    while i < 4 {
        if mem::win_byte(&c.cpu, 0, i) != fr[i] {
            a.mem = false;
        }
        i += 1;
    }
    witness!(r.is_ok() && sp > 0xffffff && fr[0] == 0xa5, "RTE with ER7 upper byte non-zero");
    std::mem::forget(c);
    ih::conclude(a, mode);
}

/// Entry (TRAPA #n when `by_trap`, else interrupt v) followed by RTE at the handler address resumes the
/// interrupted program with CCR, PC, SP, every register and all memory outside the frame as before.
pub fn entry_then_rte<S: Src>(s: &mut S, by_trap: bool) {
    let mut c: Ctx = ih::begin(s, PC_RAM);
    let vec0 = s.u8();
    let handler = s.u32();
    let init = [s.u8(), s.u8(), s.u8(), s.u8()];
    let v = s.u8();
    let resume: u32;
    let vnum: u32;
    if by_trap {
        s.assume(c.code[0] == 0x57 && c.code[1] & 0xcf == 0 && c.code[1] >> 4 != 0);
        vnum = 8 + (c.code[1] >> 4) as u32;
        resume = c.pc0 + 2;
    } else {
        s.assume(v >= 1 && v <= 63);
        vnum = v as u32;
        resume = c.pc0;
    }
    let va = 4 * vnum;
    s.assume(handler <= 0xffffff && handler & 1 == 0 && mem::plain_mem(handler) && mem::plain_mem(handler + 1));
    let vec = [vec0, (handler >> 16) as u8, (handler >> 8) as u8, handler as u8];
    let fa = call_keepable_sp(s, &c, c.pre.er[7]);
    s.assume(mem::disjoint(fa, 4, va, 4) && mem::disjoint(fa, 4, handler, 2) && mem::disjoint(va, 4, handler, 2));
    s.assume(c.code_disjoint(handler, 2));
    c.window(0, fa, &init);
    c.window(1, va, &vec);
    c.window(2, handler, &[0x56, 0x70]);
    let r1 = if by_trap {
        c.step().map(|_| ())
    } else {
        let code = c.code;
        mem::set_code(&mut c.cpu, c.pc0, &code);
        mem::seal(&mut c.cpu);
        c.pre = snap(&c.cpu);
        c.cpu.vh_interrupt(v)
    };
    let mid_pc = c.cpu.vh_pc();
    let mid_i = c.cpu.vh_ccr() & rm::I != 0;
    let r2 = c.cpu.vh_step();
    let ok_outcome = r1.is_ok() && r2.is_ok();
    let ok_route = crate::harness::ghost::called() == 0;
    let ok_mid = mid_pc == handler && mid_i;
    let ok_pc = c.cpu.vh_pc() == resume;
    let ok_regs = regs_eq(&c.cpu.er, &c.pre.er);
    let ok_ccr = c.cpu.vh_ccr() == c.pre.ccr;
    let mut ok_mem = !mem::stray(&c.cpu) && mem::win_byte(&c.cpu, 2, 0) == 0x56 && mem::win_byte(&c.cpu, 2, 1) == 0x70;
    let mut i = 0;
    while i < 4 {
        if mem::win_byte(&c.cpu, 1, i) != vec[i] {
            ok_mem = false;
        }
        i += 1;
    }
    witness!(ok_outcome && c.pre.ccr & rm::I == 0 && c.pre.er[7] > 0xffffff, "round trip from unmasked state, ER7 upper byte non-zero");
    std::mem::forget(c);
    verdict!("outcome" => ok_outcome, "route" => ok_route, "handler_entered" => ok_mid, "pc" => ok_pc, "regs" => ok_regs,
             "ccr" => ok_ccr, "mem" => ok_mem);
}
