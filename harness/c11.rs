//! C11 / C12 — the ELF loader on concrete layout skeletons with symbolic contents.
//! `elf::load` is the REAL function; only `read_elf` (file I/O) is replaced by the harness-built image.
//! Layouts are concrete because every symbolic segment address would be a symbolic-index write into
//! the 2 MiB DRAM array (CBMC runs out of memory, see C09); segment bytes, GOT values, the ___exit
//! value and the argument bytes are symbolic.
use crate::cpu::Cpu;
use crate::harness::src::Src;

pub const IMG_MAX: usize = 560;
pub const IMG_FILE: usize = 520; // SH_OFF + 6 * 40 = 516, padded to a multiple of 8
pub const DRAM_MODEL: usize = 0x18000;
pub static mut IMG: [u8; IMG_MAX] = [0; IMG_MAX];
pub static mut IMG_LEN: usize = 0;

pub fn ghost_read_elf(_path: String) -> Vec<u8> {
    unsafe { IMG[..IMG_LEN].to_vec() }
}

/// Same image, but built byte by byte (single stores into a buffer of fixed capacity).  After a `memcpy`
/// (`to_vec`) CBMC's symbolic execution no longer knows the header bytes as constants, and every loop
/// bound / name comparison / segment-type test of `load` forks.  Needs
/// `--max-field-sensitivity-array-size` >= IMG_MAX so that the constant bytes stay constants next to the
/// symbolic ones.
pub fn ghost_read_elf_bytewise(_path: String) -> Vec<u8> {
    std::mem::forget(_path);
    // 520 single-byte pushes into a buffer of fixed capacity, written out without a loop (a harness loop of 520
    // iterations would dictate the global unwinding bound).  (`Box::new(IMG) as Box<[u8]>` + `into_vec()` made CBMC
    // report a double free of the buffer at the end of `load` - not reproducible natively.)
    let mut v: Vec<u8> = Vec::with_capacity(IMG_FILE);
    push8(&mut v, 0);
    push8(&mut v, 8);
    push8(&mut v, 16);
    push8(&mut v, 24);
    push8(&mut v, 32);
    push8(&mut v, 40);
    push8(&mut v, 48);
    push8(&mut v, 56);
    push8(&mut v, 64);
    push8(&mut v, 72);
    push8(&mut v, 80);
    push8(&mut v, 88);
    push8(&mut v, 96);
    push8(&mut v, 104);
    push8(&mut v, 112);
    push8(&mut v, 120);
    push8(&mut v, 128);
    push8(&mut v, 136);
    push8(&mut v, 144);
    push8(&mut v, 152);
    push8(&mut v, 160);
    push8(&mut v, 168);
    push8(&mut v, 176);
    push8(&mut v, 184);
    push8(&mut v, 192);
    push8(&mut v, 200);
    push8(&mut v, 208);
    push8(&mut v, 216);
    push8(&mut v, 224);
    push8(&mut v, 232);
    push8(&mut v, 240);
    push8(&mut v, 248);
    push8(&mut v, 256);
    push8(&mut v, 264);
    push8(&mut v, 272);
    push8(&mut v, 280);
    push8(&mut v, 288);
    push8(&mut v, 296);
    push8(&mut v, 304);
    push8(&mut v, 312);
    push8(&mut v, 320);
    push8(&mut v, 328);
    push8(&mut v, 336);
    push8(&mut v, 344);
    push8(&mut v, 352);
    push8(&mut v, 360);
    push8(&mut v, 368);
    push8(&mut v, 376);
    push8(&mut v, 384);
    push8(&mut v, 392);
    push8(&mut v, 400);
    push8(&mut v, 408);
    push8(&mut v, 416);
    push8(&mut v, 424);
    push8(&mut v, 432);
    push8(&mut v, 440);
    push8(&mut v, 448);
    push8(&mut v, 456);
    push8(&mut v, 464);
    push8(&mut v, 472);
    push8(&mut v, 480);
    push8(&mut v, 488);
    push8(&mut v, 496);
    push8(&mut v, 504);
    push8(&mut v, 512);
    v
}

#[inline(never)]
fn push8(v: &mut Vec<u8>, o: usize) {
    unsafe {
        v.push(IMG[o]);
        v.push(IMG[o + 1]);
        v.push(IMG[o + 2]);
        v.push(IMG[o + 3]);
        v.push(IMG[o + 4]);
        v.push(IMG[o + 5]);
        v.push(IMG[o + 6]);
        v.push(IMG[o + 7]);
    }
}

/// Contract stub for `string_table::parse_string_table_entry` (the real parser is decided on its own in
/// `c11p::string_entry`): the name is the run of graphic ASCII bytes, accepted iff followed by NUL.  Builds
/// the `String` with single-byte pushes instead of `to_vec()` + `from_utf8` + `to_string()` (memcpy).
pub fn ghost_string_entry(raw: &[u8]) -> nom::IResult<&[u8], String> {
    let mut name = String::with_capacity(16);
    let mut i = 0;
    while i < 16 && i < raw.len() && raw[i] > 0x20 && raw[i] < 0x7f {
        name.push(raw[i] as char);
        i += 1;
    }
    if i < raw.len() && raw[i] == 0 {
        Ok((&raw[i + 1..], name))
    } else {
        Err(nom::Err::Error(nom::error::Error::new(raw, nom::error::ErrorKind::Tag)))
    }
}

fn p16(o: usize, v: u16) {
    unsafe {
        IMG[o] = (v >> 8) as u8;
        IMG[o + 1] = v as u8;
    }
}
fn p32(o: usize, v: u32) {
    unsafe {
        IMG[o] = (v >> 24) as u8;
        IMG[o + 1] = (v >> 16) as u8;
        IMG[o + 2] = (v >> 8) as u8;
        IMG[o + 3] = v as u8;
    }
}
fn pstr(o: usize, t: &[u8]) {
    let mut i = 0;
    while i < t.len() {
        unsafe { IMG[o + i] = t[i] };
        i += 1;
    }
}
fn phdr(o: usize, ty: u32, off: u32, vaddr: u32, filesz: u32, memsz: u32) {
    p32(o, ty);
    p32(o + 4, off);
    p32(o + 8, vaddr);
    p32(o + 12, vaddr); // p_paddr = p_vaddr
    p32(o + 16, filesz);
    p32(o + 20, memsz);
    p32(o + 24, 7);
    p32(o + 28, 4);
}
fn shdr(o: usize, name: u32, ty: u32, addr: u32, off: u32, size: u32, link: u32, entsize: u32) {
    p32(o, name);
    p32(o + 4, ty);
    p32(o + 8, 0);
    p32(o + 12, addr);
    p32(o + 16, off);
    p32(o + 20, size);
    p32(o + 24, link);
    p32(o + 28, 0);
    p32(o + 32, 4);
    p32(o + 36, entsize);
}

pub const BASE: u32 = 0x416900;
const SEG1_OFF: usize = 148;
const SEG2_OFF: usize = 164;
const SHSTR_OFF: usize = 172;
const STR_OFF: usize = 211;
const SYM_OFF: usize = 228;
const SH_OFF: usize = 276;
const SEG1_VADDR: u32 = 0x00;
const SEG1_FILESZ: u32 = 16;
const SEG2_FILESZ: u32 = 8;
const GOT_ADDR: u32 = 0x08;

/// Builds the image.  `variant` 0: program headers [LOAD, NOTE, LOAD]; 1: [LOAD, LOAD, NOTE]
/// (a non-load header last: the image end is the highest PT_LOAD extent, not the last header's).
/// `variant` 2: the second segment starts exactly where the first one (and `.got`, which is flush with its end) stops.
fn layout(variant: u8) -> (u32, u32) {
    // (memory size of segment 1, virtual address of segment 2)
    if variant == 2 { (16, 0x10) } else { (24, 0x40) }
}

fn build(variant: u8, seg1: &[u8; 16], seg2: &[u8; 8], exit_value: u32, seg2_memsz: u32, stack_size: u32, omit: u8, exit_idx: u8) {
    let (seg1_memsz, seg2_vaddr) = layout(variant);
    unsafe {
        IMG = [0; IMG_MAX];
        IMG_LEN = IMG_FILE;
    }
    pstr(0, b"\x7fELF");
    unsafe {
        IMG[4] = 1; // ELFCLASS32
        IMG[5] = 2; // big endian
        IMG[6] = 1;
    }
    p16(16, 2); // ET_EXEC
    p16(18, 46); // EM_H8_300
    p32(20, 1);
    p32(24, 0); // e_entry
    p32(28, 52); // e_phoff
    p32(32, SH_OFF as u32);
    p32(36, 0);
    p16(40, 52);
    p16(42, 32);
    p16(44, 3);
    p16(46, 40);
    p16(48, 6);
    p16(50, 3); // e_shstrndx
    let (o1, o2, o3) = if variant != 1 { (52, 116, 84) } else { (52, 84, 116) };
    phdr(o1, 1, SEG1_OFF as u32, SEG1_VADDR, SEG1_FILESZ, seg1_memsz);
    phdr(o2, 1, SEG2_OFF as u32, seg2_vaddr, SEG2_FILESZ, seg2_memsz);
    phdr(o3, 4, SHSTR_OFF as u32, 0, 0, 0); // PT_NOTE, empty
    pstr(SEG1_OFF, seg1);
    pstr(SEG2_OFF, seg2);
    // "\0.got\0.stack\0.symtab\0.strtab\0.shstrtab\0" in pieces (keeps the harness loops, and with them the
    // global unwinding bound, short)
    pstr(SHSTR_OFF, b"\0.got\0.stack\0");
    pstr(SHSTR_OFF + 13, b".symtab\0");
    pstr(SHSTR_OFF + 21, b".strtab\0");
    pstr(SHSTR_OFF + 29, b".shstrtab\0");
    pstr(STR_OFF, b"\0main\0___exit\0");
    // symbols: [null], main, ___exit
    // slot of each symbol in the table: ___exit at index `exit_idx`, the null symbol and `main` in the other two
    let (slot_main, slot_exit) = if exit_idx == 0 { (2, 0) } else if exit_idx == 1 { (2, 1) } else { (1, 2) };
    p32(SYM_OFF + 16 * slot_main, 1);
    p32(SYM_OFF + 16 * slot_main + 4, 0x10);
    p32(SYM_OFF + 16 * slot_exit, 6);
    p32(SYM_OFF + 16 * slot_exit + 4, exit_value);
    // sections (shuffled order): null, .symtab, .got, .shstrtab, .stack, .strtab
    shdr(SH_OFF + 40, 13, 2, 0, SYM_OFF as u32, 48, 5, 16);
    shdr(SH_OFF + 80, 1, 1, GOT_ADDR, (SEG1_OFF as u32) + GOT_ADDR, 8, 0, 4);
    shdr(SH_OFF + 120, 29, 3, 0, SHSTR_OFF as u32, 39, 0, 0);
    shdr(SH_OFF + 160, 6, 8, stack_size, 0, 0, 0, 0);
    shdr(SH_OFF + 200, 21, 3, 0, STR_OFF as u32, 14, 0, 0);
    // `omit`: 1 = the file has no `.stack` section, 2 = no `.symtab` section (the name is altered)
    unsafe {
        if omit == 1 {
            IMG[SHSTR_OFF + 8] = b'k';
        } else if omit == 2 {
            IMG[SHSTR_OFF + 14] = b'x';
        }
    }
}


fn dram(cpu: &Cpu, addr: u32) -> u8 {
    cpu.bus.dram[(addr - 0x400000) as usize]
}
fn dram32(cpu: &Cpu, addr: u32) -> u32 {
    ((dram(cpu, addr) as u32) << 24) | ((dram(cpu, addr + 1) as u32) << 16) | ((dram(cpu, addr + 2) as u32) << 8) | dram(cpu, addr + 3) as u32
}

pub const ARG_MAX: usize = 4;

pub fn load_skeleton<S: Src>(s: &mut S, variant: u8, env_aspects: bool) {
    load_skeleton_args(s, variant, env_aspects, None, 16, 0x1003, 0, 2)
}

pub const ARGS0: &[u8] = b"";
pub const ARGS1: &[u8] = b"a \tb";
pub const ARGS2: &[u8] = b" ab";

/// `fixed`: the argument string as a call-site constant (at most ARG_MAX bytes).  With a symbolic
/// argument string the addresses of the argument block become symbolic (word lengths), i.e. symbolic-index
/// writes into the 2 MiB DRAM array, which CBMC cannot encode (C09).
pub fn load_skeleton_args<S: Src>(s: &mut S, variant: u8, env_aspects: bool, fixed: Option<&'static [u8]>, seg2_memsz: u32, stack_size: u32, omit: u8, exit_idx: u8) {
    let (_seg1_memsz, seg2_vaddr) = layout(variant);
    let mut seg1 = [0u8; 16];
    let mut seg2 = [0u8; 8];
    let mut i = 0;
    while i < 16 {
        seg1[i] = s.u8();
        i += 1;
    }
    i = 0;
    while i < 8 {
        seg2[i] = s.u8();
        i += 1;
    }
    let exit_value = s.u32();
    // `omit` == 3: full file plus ONE zero-fill probe at a symbolic DRAM offset (drawn only in that instantiation)
    let probe_off = if omit == 3 { s.u32() } else { 0 };
    let (nargs, ab) = match fixed {
        None => {
            let n = s.u8() as usize;
            let ab = [s.u8(), s.u8(), s.u8(), 0u8];
            (n, ab)
        }
        Some(t) => {
            let mut ab = [b' '; 4];
            let mut k = 0;
            while k < t.len() && k < 4 {
                ab[k] = t[k];
                k += 1;
            }
            (t.len(), ab)
        }
    };
    s.assume(nargs <= ARG_MAX);
    // argument bytes: 'a'..'c', blank or tab
    i = 0;
    while i < ARG_MAX {
        s.assume(ab[i] == b'a' || ab[i] == b'b' || ab[i] == b' ' || ab[i] == b'\t');
        i += 1;
    }
    let g0 = u32::from_be_bytes([seg1[8], seg1[9], seg1[10], seg1[11]]);
    let g1 = u32::from_be_bytes([seg1[12], seg1[13], seg1[14], seg1[15]]);
    // every 32-bit GOT entry value: the relocated value is the sum modulo 2^32; the ___exit value is an address
    // inside the image in every generated file (no wrap past 2^32)
    s.assume(exit_value <= 0xffffffff - BASE);
    build(variant, &seg1, &seg2, exit_value, seg2_memsz, stack_size, omit, exit_idx);
    let mut args = String::new();
    match fixed {
        Some(t) => {
            // byte by byte into a buffer of fixed capacity: after a memcpy (`push_str`) the bytes would no
            // longer be constants for CBMC's symbolic execution and the word boundaries would fork
            if t.len() > 0 {
                args = String::with_capacity(8);
            }
            let mut k = 0;
            while k < t.len() {
                args.push(t[k] as char);
                k += 1;
            }
        }
        None => {
            i = 0;
            while i < ARG_MAX {
                if i < nargs {
                    args.push(ab[i] as char);
                }
                i += 1;
            }
        }
    }
    let mut cpu = Cpu::new();
    // `load` indexes `bus.dram` directly (bounds-checked).  Under Kani the 2 MiB array is replaced by the
    // first DRAM_MODEL bytes (the skeleton's image, stack, TCB and argument block end below H'418000): an
    // access beyond it would fail Kani's index check, not pass silently.  CBMC ran out of memory (24 GB)
    // converting the copies into the full-size array.
    #[cfg(kani)]
    {
        cpu.bus.dram = vec![0u8; DRAM_MODEL].into_boxed_slice();
    }
    #[cfg(not(kani))]
    let path = {
        let p = std::env::temp_dir().join(format!("h8verif_elf_{}.elf", std::process::id()));
        std::fs::write(&p, unsafe { &IMG[..IMG_LEN] }).unwrap();
        p.to_string_lossy().to_string()
    };
    #[cfg(kani)]
    let path = String::new();
    // (under Kani the path is unused; `path.clone()` of an empty String made CBMC report a spurious dealloc of an
    // unconstrained pointer when `load` drops it - bisected, DESIGN 3c)
    #[cfg(kani)]
    crate::elf::load(String::new(), &mut cpu, args);
    #[cfg(not(kani))]
    crate::elf::load(path.clone(), &mut cpu, args);
    #[cfg(not(kani))]
    let _ = std::fs::remove_file(&path);

    // ---- C11: segments, bss, GOT
    let mut ok_segments = true;
    i = 0;
    while i < 8 {
        if dram(&cpu, BASE + SEG1_VADDR + i as u32) != seg1[i] {
            ok_segments = false;
        }
        if dram(&cpu, BASE + seg2_vaddr + i as u32) != seg2[i] {
            ok_segments = false;
        }
        i += 1;
    }
    let mut ok_zero = true;
    // image bytes not covered by file contents (bss of both segments, the gap between them) and the
    // bytes just outside the image read as zero (enumerated probes: DRAM cannot be probed symbolically)
    const ZERO_PROBES_GAP: [u32; 12] = [0x10, 0x11, 0x17, 0x18, 0x20, 0x3f, 0x48, 0x49, 0x4f, 0x50, 0x51, 0x60];
    const ZERO_PROBES_ADJ: [u32; 12] = [0x18, 0x19, 0x1f, 0x20, 0x21, 0x22, 0x30, 0x3f, 0x40, 0x48, 0x50, 0x60];
    #[allow(non_snake_case)]
    let ZERO_PROBES = if variant == 2 { ZERO_PROBES_ADJ } else { ZERO_PROBES_GAP };
    i = 0;
    while i < 12 {
        if dram(&cpu, BASE + ZERO_PROBES[i]) != 0 {
            ok_zero = false;
        }
        i += 1;
    }
    if dram(&cpu, BASE - 1) != 0 || dram(&cpu, BASE - 2) != 0 || dram(&cpu, 0x400000) != 0 || dram(&cpu, 0x400000 + DRAM_MODEL as u32 - 1) != 0 {
        ok_zero = false;
    }
    let ok_got = dram32(&cpu, BASE + GOT_ADDR) == g0.wrapping_add(BASE) && dram32(&cpu, BASE + GOT_ADDR + 4) == g1.wrapping_add(BASE);
    let ok_outside = cpu.bus.memory[0] == 0 && cpu.bus.memory[0x1000] == 0 && cpu.bus.exception_handling_vector[0] == 0 && cpu.bus.io_registrs1[0x20] == 0;

    // ---- C12: process environment
    let image_end = BASE + seg2_vaddr + seg2_memsz; // highest PT_LOAD extent
    let stack_end = (image_end + stack_size + 3) & !3;
    let ok_entry = cpu.er[2] == BASE && cpu.er[5] == BASE + GOT_ADDR;
    let ok_sp = cpu.er[7] == stack_end - 8 && cpu.er[7] & 3 == 0;
    let ok_exit = cpu.exit_addr == exit_value.wrapping_add(BASE);
    // reference split of the argument string
    let mut words: [[u8; ARG_MAX]; 2] = [[0; ARG_MAX]; 2];
    let mut wlen = [0usize; 2];
    let mut nw = 0usize;
    let mut inword = false;
    i = 0;
    while i < ARG_MAX {
        if i < nargs {
            let ch = ab[i];
            if ch == b' ' || ch == b'\t' {
                inword = false;
            } else {
                if !inword {
                    nw += 1;
                    inword = true;
                }
                if nw <= 2 {
                    words[nw - 1][wlen[nw - 1]] = ch;
                    wlen[nw - 1] += 1;
                }
            }
        }
        i += 1;
    }
    let argc = 1 + nw as u32;
    let argv = (stack_end + 88 + 3) & !3;
    let mut ok_args = cpu.er[0] == argc && cpu.er[1] == argv;
    // argv[0] -> "prog.elf", argv[i] -> word i, then a null pointer; strings are NUL-terminated copies
    let strings = argv + 4 * (argc + 1);
    if dram32(&cpu, argv) != strings {
        ok_args = false;
    }
    const PROG: &[u8; 9] = b"prog.elf\0";
    i = 0;
    while i < 9 {
        if dram(&cpu, strings + i as u32) != PROG[i] {
            ok_args = false;
        }
        i += 1;
    }
    let mut at = strings + 9;
    let mut w = 0;
    while w < 2 {
        if w < nw {
            if dram32(&cpu, argv + 4 * (w as u32 + 1)) != at {
                ok_args = false;
            }
            let mut k = 0;
            while k < ARG_MAX {
                if k < wlen[w] && dram(&cpu, at + k as u32) != words[w][k] {
                    ok_args = false;
                }
                k += 1;
            }
            if dram(&cpu, at + wlen[w] as u32) != 0 {
                ok_args = false;
            }
            at += wlen[w] as u32 + 1;
        }
        w += 1;
    }
    if dram32(&cpu, argv + 4 * argc) != 0 {
        ok_args = false;
    }
    // stack region, TCB and argument block lie above the image, in that order, inside DRAM
    let ok_layout = image_end <= cpu.er[7] && stack_end + 88 <= argv && at <= 0x5fffff;
    // symbolic zero-fill probe: every DRAM byte (of the modelled prefix) that is neither file content of a segment nor
    // part of the argument block the loader writes ([argv, at)) still reads zero - bss, gaps, stack region, TCB, the
    // bytes below the load base and above the argument block
    let mut ok_zero_sym = true;
    let off = probe_off % (DRAM_MODEL as u32);
    let a = 0x400000 + off;
    witness!(when: omit == 3, a > image_end && a < cpu.er[7], "probe inside the stack region");
    witness!(when: omit == 3, a >= BASE + 0x18 && a < BASE + seg2_vaddr, "probe in the bss / gap of the first segment");
    if omit == 3 {
        let in_seg1 = a >= BASE + SEG1_VADDR && a < BASE + SEG1_VADDR + SEG1_FILESZ;
        let in_seg2 = a >= BASE + seg2_vaddr && a < BASE + seg2_vaddr + SEG2_FILESZ;
        let in_args = a >= argv && a < at;
        if !in_seg1 && !in_seg2 && !in_args && dram(&cpu, a) != 0 {
            ok_zero_sym = false;
        }
    }
    witness!(when: fixed.is_none(), nargs == 3 && nw == 2, "two argument words");
    witness!(when: fixed.is_none(), nargs == 0, "empty argument string");
    witness!(cpu.er[2] == BASE, "load returned");
    witness!(g0 > 0x00ffffff - BASE && g0 < 0x01000000, "GOT sum carries into the top byte");
    std::mem::forget(cpu);
    if env_aspects {
        // a file without `.stack` leaves ER7/ER0/ER1 alone, one without `.symtab` the exit address
        let no_stack = omit == 1;
        let no_symtab = omit == 2;
        verdict!("entry" => ok_entry, "stack_pointer" => ok_sp || no_stack, "exit_addr" => ok_exit || no_symtab, "args" => ok_args || no_stack, "layout" => ok_layout || no_stack);
    } else {
        verdict!("segments" => ok_segments, "zero_fill" => ok_zero, "got" => ok_got, "outside_dram" => ok_outside, "zero_fill_symbolic_probe" => ok_zero_sym);
    }
}

/// Feasibility probe (not part of any property): the `Vec<&str>` idiom of `load`'s argument handling.
#[inline(never)]
fn probe_inner(cpu: &mut Cpu, args: String, mut a: usize) -> u32 {
    log::info!("args: [{}]", args);
    let mut args_list: Vec<&str> = args.split_whitespace().collect();
    args_list.insert(0, "prog.elf");
    cpu.er[0] = args_list.len() as u32;
    log::trace!("Set er0 [0x{:x}]", cpu.er[0]);
    let mut argp = a;
    a += 4 * (args_list.len() + 1);
    let mut n = 0u32;
    for arg in args_list {
        let argp_i = argp - 0x400000;
        cpu.bus.dram[argp_i..argp_i + 4].copy_from_slice(&(a as u32).to_be_bytes());
        argp += 4;
        for c in arg.as_bytes() {
            cpu.bus.dram[a - 0x400000] = *c;
            a += 1;
            n += *c as u32;
        }
        cpu.bus.dram[a - 0x400000] = 0;
        a += 1;
    }
    n
}

pub fn probe_vec_str<S: Src>(s: &mut S) {
    let x = s.u8();
    let mut cpu = Cpu::new();
    cpu.bus.dram = vec![0u8; DRAM_MODEL].into_boxed_slice();
    let args = String::with_capacity(8);
    let n = probe_inner(&mut cpu, args, 0x417000);
    witness!(x == 3, "reached");
    std::mem::forget(cpu);
    verdict!("sum" => n == 0x70 + 0x72 + 0x6f + 0x67 + 0x2e + 0x65 + 0x6c + 0x66);
}
