//! C13 — the run loop, and C18 — control-socket lines.  `Cpu::run()` is the REAL function; `fetch`,
//! `exec`, `try_interrupt`, `update_modules`, `send_message`, the host clock and the sleeper are replaced
//! by scripted / logging stubs so that instruction outcomes, charged states and the clock are symbolic.
use crate::bus::Bus;
use crate::cpu::interrupt_controller::InterruptController;
use crate::cpu::Cpu;
use crate::harness::src::Src;
use crate::modules::ModuleManager;
use anyhow::Result;
use std::time::{Duration, Instant};

pub const K: usize = 4; // loop iterations explored
pub const EV_MAX: usize = 32;
pub const E_TRY: u8 = 1;
pub const E_FETCH: u8 = 2;
pub const E_EXEC: u8 = 3;
pub const E_UPDATE: u8 = 4;
pub const E_MSG: u8 = 5;
pub const E_WRITE: u8 = 6;
pub const E_PORT: u8 = 7;
pub const E_POP: u8 = 8;

pub static mut EV: [(u8, u32, u32); EV_MAX] = [(0, 0, 0); EV_MAX];
pub static mut EV_N: usize = 0;
pub static mut SCRIPT_OK: [bool; K] = [false; K];
pub static mut SCRIPT_STATE: [u8; K] = [0; K];
pub static mut SCRIPT_PC: [u32; K] = [0; K];
pub static mut EXEC_CALLS: usize = 0;
pub static mut CLOCK: [(u64, u32); 4] = [(0, 0); 4];
pub static mut CLOCK_I: usize = 0;

fn ev(kind: u8, a: u32, b: u32) {
    unsafe {
        if EV_N < EV_MAX {
            EV[EV_N] = (kind, a, b);
        }
        EV_N += 1;
    }
}

pub fn ghost_fetch(c: &mut Cpu) -> u16 {
    ev(E_FETCH, c.vh_pc(), 0);
    0
}

pub fn ghost_exec(c: &mut Cpu, _opcode: u16) -> Result<u8> {
    unsafe {
        let i = EXEC_CALLS;
        #[cfg(kani)]
        kani::assume(i < K); // cut: at most K instructions are explored (assumptions are not retroactive)
        EXEC_CALLS += 1;
        ev(E_EXEC, i as u32, 0);
        if i < K && SCRIPT_OK[i] {
            c.vh_set_pc(SCRIPT_PC[i]);
            Ok(SCRIPT_STATE[i])
        } else {
            Err(anyhow::Error::new_opaque())
        }
    }
}

pub fn ghost_try_interrupt(_c: &mut Cpu) -> Result<()> {
    ev(E_TRY, 0, 0);
    Ok(())
}

pub fn ghost_update_modules(_m: &mut ModuleManager, bus: &mut Bus, state: u8, _ic: &mut InterruptController) -> Result<()> {
    ev(E_UPDATE, state as u32, bus.cpu_state_sum as u32);
    Ok(())
}

pub fn ghost_send_message(_c: &mut Cpu, _m: &String) -> Result<()> {
    ev(E_MSG, 0, 0);
    Ok(())
}

pub fn ghost_bus_write(_b: &mut Bus, addr: u32, value: u8) -> Result<()> {
    ev(E_WRITE, addr, value as u32);
    Ok(())
}

pub fn ghost_write_port(_b: &mut Bus, port: u8, value: u8) {
    ev(E_PORT, port as u32, value as u32);
}

pub fn instant_now() -> Instant {
    // opaque host clock: the value is never inspected by the harness
    unsafe { core::mem::zeroed() }
}

pub fn instant_elapsed(_i: &Instant) -> Duration {
    unsafe {
        let (s, n) = CLOCK[CLOCK_I & 3];
        CLOCK_I += 1;
        Duration::new(s, n % 1_000_000_000)
    }
}

pub fn spin_sleep(_s: spin_sleep::SpinSleeper, _d: Duration) {}

/// `Cpu::print_er` only builds a trace-log line (8 x format! + String concatenation).
pub fn ghost_print_er(_c: &Cpu) {}

pub fn sleeper_default() -> spin_sleep::SpinSleeper {
    spin_sleep::SpinSleeper::new(100_000)
}

fn reset() {
    unsafe {
        EV = [(0, 0, 0); EV_MAX];
        EV_N = 0;
        EXEC_CALLS = 0;
        CLOCK_I = 0;
    }
}

/// Up to K scripted instructions: run stops with Ok exactly when PC == exit address after an
/// instruction, returns the first instruction error, never executes past either; state accounting and
/// the amount handed to the peripherals follow the charged amount; each iteration is
/// try_interrupt -> fetch -> exec -> update_modules; nothing depends on the (arbitrary) host clock.
pub fn run_loop<S: Src>(s: &mut S, max_state: u8) {
    reset();
    let mut cpu = Cpu::new();
    let exit_addr = s.u32();
    let start = s.u32();
    let mut i = 0;
    while i < K {
        let ok = s.bool();
        let st = s.u8();
        let pc = s.u32();
        s.assume(st <= max_state);
        unsafe {
            SCRIPT_OK[i] = ok;
            SCRIPT_STATE[i] = st;
            SCRIPT_PC[i] = pc;
        }
        i += 1;
    }
    i = 0;
    while i < 4 {
        let a = s.u32() as u64;
        let b = s.u32();
        unsafe { CLOCK[i] = (a, b) };
        i += 1;
    }
    let sum0 = s.u16() as usize;
    cpu.exit_addr = exit_addr;
    cpu.er[2] = start;
    cpu.vh_set_state_sum(sum0);
    cpu.bus.cpu_state_sum = sum0;
    let r = cpu.run();

    // reference: index of the instruction after which run must stop
    let mut stop = K; // K = not within the explored horizon (cut by the assume in ghost_exec)
    let mut exp_ok = false;
    let mut charged: usize = 0;
    i = 0;
    while i < K {
        if stop == K {
            let (ok, st, pc) = unsafe { (SCRIPT_OK[i], SCRIPT_STATE[i], SCRIPT_PC[i]) };
            if !ok {
                stop = i;
                exp_ok = false;
            } else {
                charged += 3 * st as usize;
                if pc == exit_addr {
                    stop = i;
                    exp_ok = true;
                }
            }
        }
        i += 1;
    }
    let n_exec = unsafe { EXEC_CALLS };
    let ok_result = r.is_ok() == exp_ok;
    let ok_stop = n_exec == stop + 1;
    let ok_sum = cpu.vh_state_sum() == sum0 + charged && cpu.bus.cpu_state_sum == cpu.vh_state_sum();
    // event order and the amounts handed to the peripherals
    let mut ok_order = true;
    let mut ok_update = true;
    let n = unsafe { EV_N };
    let mut p = 0usize;
    let mut run_sum = sum0;
    i = 0;
    while i < K {
        if i <= stop && stop < K {
            let (ok, st, _pc) = unsafe { (SCRIPT_OK[i], SCRIPT_STATE[i], SCRIPT_PC[i]) };
            let e0 = if p < EV_MAX { unsafe { EV[p] } } else { (0, 0, 0) };
            let e1 = if p + 1 < EV_MAX { unsafe { EV[p + 1] } } else { (0, 0, 0) };
            let e2 = if p + 2 < EV_MAX { unsafe { EV[p + 2] } } else { (0, 0, 0) };
            if e0.0 != E_TRY || e1.0 != E_FETCH || e2.0 != E_EXEC {
                ok_order = false;
            }
            p += 3;
            if ok {
                // the charged amount may reach the peripherals in one or several consecutive updates
                // (each at most 255 states); their sum must be the charged amount
                run_sum += 3 * st as usize;
                let mut got: usize = 0;
                let mut chunks = 0;
                let mut more = true;
                while chunks < 4 && more {
                    let e3 = if p < EV_MAX { unsafe { EV[p] } } else { (0, 0, 0) };
                    if e3.0 == E_UPDATE && p < n {
                        got += e3.1 as usize;
                        if e3.2 as usize != run_sum {
                            ok_update = false; // bus time stamp already advanced
                        }
                        p += 1;
                        chunks += 1;
                    } else {
                        more = false;
                    }
                }
                if chunks == 0 && st != 0 {
                    ok_order = false;
                }
                if got != 3 * st as usize {
                    ok_update = false;
                }
            }
        }
        i += 1;
    }
    if n != p {
        ok_order = false; // no other event (e.g. a message) within the horizon
    }
    witness!(stop == 2 && exp_ok && r.is_ok(), "three instructions, then the exit address");
    witness!(stop == 1 && !exp_ok && r.is_err(), "second instruction fails");
    witness!(stop == 0 && exp_ok, "exit after the first instruction");
    std::mem::forget(cpu);
    verdict!("result" => ok_result, "stop" => ok_stop, "state_sum" => ok_sum, "order" => ok_order, "peripheral_amount" => ok_update);
}

// ------------------------------------------------------------------------------------------ C18

pub const POLLS: usize = 3;
pub const LINES: usize = 3;
pub static mut BATCH_OF: [u8; LINES] = [0; LINES]; // poll index at which line i is delivered (non-decreasing)
pub static mut LINE_KIND: [u8; LINES] = [0; LINES];
pub static mut LINE_A: [u8; LINES] = [0; LINES];
pub static mut LINE_B: [u8; LINES] = [0; LINES];
pub static mut N_LINES: usize = 0;
pub static mut POLL_I: usize = 0;

pub const L_PAUSE: u8 = 0;
pub const L_START: u8 = 1;
pub const L_STOP: u8 = 2;
pub const L_U8: u8 = 3; // u8:ffcf2<a>:<b>   (a, b = one hex digit each)
pub const L_IOPORT: u8 = 4; // ioport:<a>:<b>
pub const L_CMD_EXTRA: u8 = 5; // cmd:pause:x  (malformed: three fields)
pub const L_UNKNOWN: u8 = 6; // foo:1
pub const L_EMPTY: u8 = 7;
pub const L_U8_BAD: u8 = 8; // u8:zz:1 (malformed number)
pub const L_KINDS: u8 = 9;

fn hexd(x: u8) -> char {
    let x = x & 15;
    if x < 10 { (b'0' + x) as char } else { (b'a' + x - 10) as char }
}

fn line_text(kind: u8, a: u8, b: u8) -> String {
    let mut t = String::new();
    match kind {
        L_PAUSE => t.push_str("cmd:pause"),
        L_START => t.push_str("cmd:start"),
        L_STOP => t.push_str("cmd:stop"),
        L_U8 => {
            t.push_str("u8:ffcf2");
            t.push(hexd(a));
            t.push(':');
            t.push(hexd(b));
        }
        L_IOPORT => {
            t.push_str("ioport:");
            t.push(hexd(a));
            t.push(':');
            t.push(hexd(b));
        }
        L_CMD_EXTRA => t.push_str("cmd:pause:x"),
        L_UNKNOWN => t.push_str("foo:1"),
        L_EMPTY => {}
        _ => t.push_str("u8:zz:1"),
    }
    t
}

/// Stub for `Socket::pop_messages`: poll p returns the scripted lines whose batch index is p.
pub fn ghost_pop_messages(_s: &crate::socket::Socket) -> Result<Vec<String>> {
    unsafe {
        let p = POLL_I;
        #[cfg(kani)]
        kani::assume(p < POLLS); // horizon: POLLS polls
        POLL_I += 1;
        ev(E_POP, p as u32, 0);
        let mut v: Vec<String> = Vec::new();
        let mut i = 0;
        while i < LINES {
            if i < N_LINES && BATCH_OF[i] as usize == p {
                v.push(line_text(LINE_KIND[i], LINE_A[i], LINE_B[i]));
            }
            i += 1;
        }
        Ok(v)
    }
}

/// Up to three lines delivered in any batching over three polls: the sequence of applied effects
/// (byte stores, port inputs, pause/start/stop) equals the reference interpretation of the lines in
/// arrival order, independent of the batching; malformed / unknown lines affect nothing else.
/// The three line kinds are call-site constants (one harness per sequence): with symbolic line texts
/// the string code (`split`, `from_str_radix`, memchr/memcmp loops) did not get through symbolic
/// execution in 35 minutes.  What stays symbolic is the partition of the sequence into polling batches
/// (all 10 non-decreasing assignments of 3 lines to 3 polls) and the number of lines sent (0..=3).
pub fn socket_lines<S: Src>(s: &mut S, k0: u8, k1: u8, k2: u8, max_lines: usize, max_polls: u8) {
    reset();
    let mut cpu = Cpu::new();
    let n = s.u8() as usize;
    s.assume(n <= LINES && n <= max_lines);
    let kinds = [k0, k1, k2];
    let mut prev = 0u8;
    let mut i = 0;
    while i < LINES {
        let b = s.u8();
        let k = kinds[i];
        let (x, y) = (3 + i as u8, 5 + i as u8);
        s.assume(b >= prev && (b as usize) < POLLS && b < max_polls);
        prev = b;
        unsafe {
            BATCH_OF[i] = b;
            LINE_KIND[i] = k;
            LINE_A[i] = x;
            LINE_B[i] = y;
        }
        i += 1;
    }
    unsafe {
        N_LINES = n;
        POLL_I = 0;
        // instructions never fail and never reach the exit address inside the horizon
        let mut j = 0;
        while j < K {
            SCRIPT_OK[j] = true;
            SCRIPT_STATE[j] = 1;
            SCRIPT_PC[j] = 0x1000 + 2 * j as u32;
            j += 1;
        }
    }
    cpu.exit_addr = 0xffffff;
    cpu.er[2] = 0x416900;
    let (tx, rx) = std::sync::mpsc::channel::<String>();
    let (_tx2, rx2) = std::sync::mpsc::channel::<String>();
    let _ = rx;
    cpu.vh_set_socket(Some(crate::socket::Socket::vh_from_channels(tx, rx2)));
    let r = cpu.run();

    // reference interpretation in arrival order
    let mut exp: [(u8, u32, u32); LINES] = [(0, 0, 0); LINES];
    let mut nexp = 0usize;
    let mut stopped = false;
    i = 0;
    while i < LINES {
        if i < n && !stopped {
            let (k, x, y) = unsafe { (LINE_KIND[i], LINE_A[i], LINE_B[i]) };
            if k == L_STOP {
                stopped = true;
            } else if k == L_U8 {
                exp[nexp] = (E_WRITE, 0xffcf20 + x as u32, y as u32);
                nexp += 1;
            } else if k == L_IOPORT {
                exp[nexp] = (E_PORT, x as u32, y as u32);
                nexp += 1;
            }
        }
        i += 1;
    }
    // observed effects: E_WRITE / E_PORT events after the five bus-controller writes of init_registers
    let total = unsafe { EV_N };
    let mut seen_writes = 0usize;
    let mut got = 0usize;
    let mut ok_effects = true;
    i = 0;
    while i < EV_MAX {
        if i < total {
            let e = unsafe { EV[i] };
            if e.0 == E_WRITE || e.0 == E_PORT {
                if e.0 == E_WRITE && seen_writes < 5 {
                    seen_writes += 1; // init_registers
                } else {
                    if got < LINES {
                        if exp[got] != e {
                            ok_effects = false;
                        }
                    } else {
                        ok_effects = false;
                    }
                    got += 1;
                }
            }
        }
        i += 1;
    }
    if got != nexp {
        ok_effects = false;
    }
    let ok_stop = !stopped || r.is_ok();
    witness!(n == max_lines && unsafe { BATCH_OF[0] == 0 && BATCH_OF[1] == 0 }, "the first two lines in the first batch");
    witness!(n == max_lines && unsafe { BATCH_OF[0] == 0 && BATCH_OF[1] == 1 }, "one line per poll");
    witness!(when: k0 == L_STOP || k1 == L_STOP || k2 == L_STOP, stopped && r.is_ok(), "stop ends the run");
    std::mem::forget(cpu);
    verdict!("effects" => ok_effects, "stop" => ok_stop);
}
