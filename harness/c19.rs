//! C19 — bus-cycle cost function on the real `calc_state_with_addr` and the real `Bus`.
use crate::cpu::{Cpu, StateType};
use crate::harness::refmodel::{self as rm, BusCfg};
use crate::harness::src::Src;

fn kind_of(k: u8) -> StateType {
    match k {
        0 => StateType::I,
        1 => StateType::J,
        2 => StateType::K,
        3 => StateType::L,
        4 => StateType::M,
        _ => StateType::N,
    }
}

fn set_cfg(cpu: &mut Cpu, c: &BusCfg) {
    // registers live in io_registrs1 (H'FEE020..); poked directly: Bus::write would notify modules
    cpu.bus.io_registrs1[0x20] = c.abwcr;
    cpu.bus.io_registrs1[0x21] = c.astcr;
    cpu.bus.io_registrs1[0x22] = c.wcrh;
    cpu.bus.io_registrs1[0x23] = c.wcrl;
    cpu.bus.io_registrs1[0x26] = c.drcra;
}

fn draw_cfg<S: Src>(s: &mut S) -> BusCfg {
    BusCfg { abwcr: s.u8(), astcr: s.u8(), wcrh: s.u8(), wcrl: s.u8(), drcra: s.u8() }
}

/// The property's input domain: address below 2^24, not an on-chip I/O register; areas 3-5 only
/// with DRAM select 0/1.
fn in_domain(addr: u32, cfg: &BusCfg) -> bool {
    if addr > 0xffffff || rm::io_register(addr) {
        return false;
    }
    let area = (addr >> 21) as u8;
    if area >= 3 && area <= 5 && !rm::on_chip_ram(addr) && (cfg.drcra >> 5) > 1 {
        return false;
    }
    true
}

/// cost(kind, n, addr) == n * reference per-cycle cost, for all settings.
pub fn cost_matches_reference<S: Src>(s: &mut S) {
    let kind = s.u8();
    let count = s.u8();
    let addr = s.u32();
    let cfg = draw_cfg(s);
    let opc = s.u32();
    s.assume(kind < 6);
    s.assume(count >= 1 && count <= 5);
    s.assume(in_domain(addr, &cfg));
    let mut cpu = Cpu::new();
    set_cfg(&mut cpu, &cfg);
    cpu.vh_set_operating_pc(opc);
    let got = cpu.vh_calc_state_with_addr(kind_of(kind), count, addr);
    let exp = count * rm::cycle_cost(kind, addr, &cfg);
    let ok_outcome = got.is_ok();
    let ok_value = match got {
        Ok(v) => v == exp,
        Err(_) => true,
    };
    witness!(ok_outcome && kind == rm::K_M && exp == 5 * 14, "word access, 8-bit bus, DRAM/3-state, 3 waits, n=5");
    witness!(ok_outcome && rm::on_chip_ram(addr), "on-chip RAM");
    witness!(ok_outcome && kind == rm::K_N, "internal");
    verdict!("outcome" => ok_outcome, "value" => ok_value);
}

/// `calc_state` (fetch/stack/branch/internal kinds) costs at the address of the executing instruction.
pub fn calc_state_uses_operating_pc<S: Src>(s: &mut S) {
    let kind = s.u8();
    let count = s.u8();
    let cfg = draw_cfg(s);
    let opc = s.u32();
    s.assume(kind < 6 && kind != rm::K_L && kind != rm::K_M);
    s.assume(count >= 1 && count <= 5);
    s.assume(in_domain(opc, &cfg));
    let mut cpu = Cpu::new();
    set_cfg(&mut cpu, &cfg);
    cpu.vh_set_operating_pc(opc);
    let got = cpu.calc_state(kind_of(kind), count);
    let exp = count * rm::cycle_cost(kind, opc, &cfg);
    let ok_outcome = got.is_ok();
    let ok_value = match got {
        Ok(v) => v == exp,
        Err(_) => true,
    };
    witness!(ok_outcome && exp == 70, "max cost reached");
    verdict!("outcome" => ok_outcome, "value" => ok_value);
}

/// Settings of other areas never influence the cost: two configurations that agree on the fields
/// of the addressed area give the same cost; and cost(n) = n * cost(1).
pub fn other_areas_do_not_matter<S: Src>(s: &mut S) {
    let kind = s.u8();
    let count = s.u8();
    let addr = s.u32();
    let a = draw_cfg(s);
    let b = draw_cfg(s);
    s.assume(kind < 6);
    s.assume(count >= 1 && count <= 5);
    s.assume(in_domain(addr, &a) && in_domain(addr, &b));
    let area = (addr >> 21) as u8;
    s.assume((a.abwcr >> area) & 1 == (b.abwcr >> area) & 1);
    s.assume((a.astcr >> area) & 1 == (b.astcr >> area) & 1);
    s.assume(rm::wait_states(area, &a) == rm::wait_states(area, &b));
    s.assume(rm::is_dram_area(area, a.drcra) == rm::is_dram_area(area, b.drcra));
    let mut cpu = Cpu::new();
    set_cfg(&mut cpu, &a);
    let ra = cpu.vh_calc_state_with_addr(kind_of(kind), count, addr);
    let ra1 = cpu.vh_calc_state_with_addr(kind_of(kind), 1, addr);
    set_cfg(&mut cpu, &b);
    let rb = cpu.vh_calc_state_with_addr(kind_of(kind), count, addr);
    let ok_outcome = ra.is_ok() && rb.is_ok() && ra1.is_ok();
    let (mut ok_same, mut ok_linear) = (true, true);
    if let (Ok(x), Ok(y), Ok(one)) = (ra, rb, ra1) {
        ok_same = x == y;
        ok_linear = x == count * one;
    }
    witness!(ok_outcome && a.abwcr != b.abwcr && a.wcrl != b.wcrl, "configurations differ elsewhere");
    verdict!("outcome" => ok_outcome, "same" => ok_same, "linear" => ok_linear);
}
