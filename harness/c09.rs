//! C09 — the guest address space on the REAL `Bus` (no memory stub): classification, persistence,
//! no aliasing, big-endian composition.
use crate::cpu::Cpu;
use crate::harness::mem;
use crate::harness::src::Src;

/// Read classification for every 32-bit address: `read` succeeds iff the address is in one of the five
/// mapped ranges; a fresh bus reads zero everywhere.
pub fn read_classification<S: Src>(s: &mut S) {
    let addr = s.u32();
    let cpu = Cpu::new();
    let r = cpu.bus.read(addr);
    let ok_class = r.is_ok() == mem::accessible(addr);
    let ok_zero = match r {
        Ok(v) => v == 0,
        Err(_) => true,
    };
    witness!(r.is_ok() && addr >= 0xffff20, "I/O register read");
    witness!(r.is_err() && addr > 0xffffff, "address above 2^24 rejected");
    witness!(r.is_err() && addr < 0x400000, "gap below DRAM rejected");
    std::mem::forget(cpu);
    verdict!("classification" => ok_class, "fresh_zero" => ok_zero);
}

pub const GROUP_LEN: usize = 8;
/// Boundary sets: both ends (+-1) of every region and interior points; `true` = plain storage expected
/// to be writable, `false` = unmapped (write must fail and change nothing).
pub const GROUPS: [[(u32, bool); GROUP_LEN]; 6] = [
    // vector area and the gap above it
    [(0x000000, true), (0x000001, true), (0x00007f, true), (0x0000fe, true), (0x0000ff, true), (0x000100, false), (0x000101, false), (0x3fffff, false)],
    // DRAM
    [(0x400000, true), (0x400001, true), (0x416900, true), (0x4fffff, true), (0x5ffffe, true), (0x5fffff, true), (0x600000, false), (0x3ffffe, false)],
    // I/O registers 1 (DDR H'FEE000-0A excluded: not plain storage)
    [(0xfedfff, false), (0xfee00b, true), (0xfee020, true), (0xfee026, true), (0xfee0fe, true), (0xfee0ff, true), (0xfee100, false), (0xfee101, false)],
    // on-chip RAM lower end and upper end
    [(0xffbf1e, false), (0xffbf1f, false), (0xffbf20, true), (0xffbf21, true), (0xffcf20, true), (0xffff1e, true), (0xffff1f, true), (0xffff00, true)],
    // I/O registers 2 (adjacent to RAM; DR H'FFFFD0-DA excluded) and the top of the 24-bit space
    [(0xffff20, true), (0xffff21, true), (0xffff80, true), (0xffffcf, true), (0xffffdb, true), (0xffffe9, true), (0xffffea, false), (0xffffff, false)],
    // at and above 2^24 (would alias mapped addresses if the upper byte were ignored)
    [(0x01000000, false), (0x01000020, false), (0x01400000, false), (0x01ffbf20, false), (0xff000000, false), (0xffffff20, false), (0xffffffff, false), (0x80416900, false)],
];

/// Two rounds of byte writes at the group's concrete addresses (symbolic values), then ONE probe read at
/// a fully symbolic address: the probe returns the last value written to that address, zero if it was
/// never (successfully) written, an error iff unmapped.
pub fn write_then_probe<S: Src>(s: &mut S, g: usize) {
    let mut v1 = [0u8; GROUP_LEN];
    let mut v2 = [0u8; GROUP_LEN];
    let mut i = 0;
    while i < GROUP_LEN {
        v1[i] = s.u8();
        v2[i] = s.u8();
        i += 1;
    }
    let probe = s.u32();
    let second_round_mask = s.u8(); // which addresses are overwritten in round two
    let mut cpu = Cpu::new();
    let mut ok_outcome = true;
    let mut last = [0u8; GROUP_LEN];
    i = 0;
    while i < GROUP_LEN {
        let (a, plain) = GROUPS[g][i];
        let r = cpu.bus.write(a, v1[i]);
        if r.is_ok() != plain {
            ok_outcome = false;
        }
        if plain {
            last[i] = v1[i];
        }
        i += 1;
    }
    i = 0;
    while i < GROUP_LEN {
        let (a, plain) = GROUPS[g][i];
        if (second_round_mask >> i) & 1 == 1 {
            let r = cpu.bus.write(a, v2[i]);
            if r.is_ok() != plain {
                ok_outcome = false;
            }
            if plain {
                last[i] = v2[i];
            }
        }
        i += 1;
    }
    let r = cpu.bus.read(probe);
    let mut expect: u8 = 0;
    let mut hit = false;
    i = 0;
    while i < GROUP_LEN {
        let (a, plain) = GROUPS[g][i];
        if a == probe && plain {
            expect = last[i];
            hit = true;
        }
        i += 1;
    }
    let ok_class = r.is_ok() == mem::accessible(probe);
    let ok_value = match r {
        Ok(v) => v == expect,
        Err(_) => true,
    };
    witness!(when: g != 5, r.is_ok() && hit && expect != 0, "probe hits a written location");
    witness!(r.is_ok() && !hit, "probe at an untouched mapped location");
    std::mem::forget(cpu);
    verdict!("write_outcome" => ok_outcome, "probe_classification" => ok_class, "probe_value" => ok_value);
}

/// 16/32-bit accesses are the big-endian composition of consecutive bytes; an access that leaves the
/// mapped range fails.  `base` is concrete (boundary set), data symbolic.
pub fn word_long_composition<S: Src>(s: &mut S, g: usize) {
    let w = s.u16();
    let l = s.u32();
    // DRAM group: a symbolic-index read of the 2 MiB array after a write exhausts CBMC's memory
    // (measured, also with --arrays-uf-always); the aliasing probe is then a fixed address in another region
    let probe = if g == 1 { let _ = s.u32(); 0xffcf20 } else { s.u32() };
    let mut ok_w = true;
    let mut ok_l = true;
    let mut ok_err = true;
    let mut ok_alias = true;
    let mut reached_ok = false;
    let mut reached_err = false;
    let mut i = 0;
    while i < GROUP_LEN {
        let (a, _plain) = GROUPS[g][i];
        // word
        {
            let mut cpu = Cpu::new();
            let all_mapped = mem::accessible(a) && mem::accessible(a.wrapping_add(1));
            let no_side = !mem::side_effect_reg(a) && !mem::side_effect_reg(a.wrapping_add(1));
            if no_side {
                let r = cpu.vh_write_abs24_w(a, w);
                if all_mapped {
                    reached_ok = true;
                    let b0 = cpu.bus.read(a);
                    let b1 = cpu.bus.read(a + 1);
                    let back = cpu.vh_read_abs24_w(a);
                    match (r, b0, b1, back) {
                        (Ok(()), Ok(x0), Ok(x1), Ok(rw)) => {
                            if x0 != (w >> 8) as u8 || x1 != w as u8 || rw != w {
                                ok_w = false;
                            }
                        }
                        _ => ok_w = false,
                    }
                    // no other location changed
                    if probe != a && probe != a + 1 {
                        if let Ok(pv) = cpu.bus.read(probe) {
                            if pv != 0 {
                                ok_alias = false;
                            }
                        }
                    }
                } else {
                    reached_err = true;
                    if r.is_ok() || cpu.vh_read_abs24_w(a).is_ok() {
                        ok_err = false;
                    }
                }
            }
            std::mem::forget(cpu);
        }
        // long
        {
            let mut cpu = Cpu::new();
            let mut all_mapped = true;
            let mut no_side = true;
            let mut k = 0;
            while k < 4 {
                let x = a.wrapping_add(k);
                if !mem::accessible(x) {
                    all_mapped = false;
                }
                if mem::side_effect_reg(x) {
                    no_side = false;
                }
                k += 1;
            }
            if no_side {
                let r = cpu.vh_write_abs24_l(a, l);
                if all_mapped {
                    let back = cpu.vh_read_abs24_l(a);
                    let mut bytes_ok = true;
                    let mut k = 0;
                    while k < 4 {
                        match cpu.bus.read(a + k) {
                            Ok(x) => {
                                if x != (l >> (24 - 8 * k)) as u8 {
                                    bytes_ok = false;
                                }
                            }
                            Err(_) => bytes_ok = false,
                        }
                        k += 1;
                    }
                    match (r, back) {
                        (Ok(()), Ok(rl)) => {
                            if rl != l || !bytes_ok {
                                ok_l = false;
                            }
                        }
                        _ => ok_l = false,
                    }
                } else if r.is_ok() || cpu.vh_read_abs24_l(a).is_ok() {
                    ok_err = false;
                }
            }
            std::mem::forget(cpu);
        }
        i += 1;
    }
    witness!(when: g != 5, reached_ok && w != 0 && l != 0, "composition checked with non-zero data");
    witness!(reached_err, "straddling / unmapped access reached");
    verdict!("word" => ok_w, "long" => ok_l, "error" => ok_err, "no_alias" => ok_alias);
}

/// DRAM variant of `write_then_probe`: CBMC cannot encode a symbolic-index read of the 2 MiB DRAM array
/// once it has been written (out of memory at 30 GB, with and without --arrays-uf-always), so after the
/// same two rounds of symbolic-valued writes the probe is an ENUMERATED set of concrete addresses: every
/// group address, its neighbours +-1/+-2, and the addresses with the same offset in the other regions.
pub fn write_then_probe_concrete<S: Src>(s: &mut S, g: usize) {
    let mut v1 = [0u8; GROUP_LEN];
    let mut v2 = [0u8; GROUP_LEN];
    let mut i = 0;
    while i < GROUP_LEN {
        v1[i] = s.u8();
        v2[i] = s.u8();
        i += 1;
    }
    let second_round_mask = s.u8();
    let mut cpu = Cpu::new();
    let mut ok_outcome = true;
    let mut last = [0u8; GROUP_LEN];
    i = 0;
    while i < GROUP_LEN {
        let (a, plain) = GROUPS[g][i];
        if cpu.bus.write(a, v1[i]).is_ok() != plain {
            ok_outcome = false;
        }
        if plain {
            last[i] = v1[i];
        }
        i += 1;
    }
    i = 0;
    while i < GROUP_LEN {
        let (a, plain) = GROUPS[g][i];
        if (second_round_mask >> i) & 1 == 1 {
            if cpu.bus.write(a, v2[i]).is_ok() != plain {
                ok_outcome = false;
            }
            if plain {
                last[i] = v2[i];
            }
        }
        i += 1;
    }
    let mut ok_class = true;
    let mut ok_value = true;
    let mut hits = 0;
    const DELTAS: [i32; 5] = [0, 1, -1, 2, -2];
    const IMAGES: [u32; 4] = [0, 0xffbf20u32.wrapping_sub(0x400000), 0xfee000u32.wrapping_sub(0x400000), 0x1000000];
    i = 0;
    while i < GROUP_LEN {
        let mut d = 0;
        while d < 5 {
            let mut m = 0;
            while m < 4 {
                let probe = GROUPS[g][i].0.wrapping_add(DELTAS[d] as u32).wrapping_add(if d == 0 { IMAGES[m] } else { 0 });
                if d == 0 || m == 0 {
                    let r = cpu.bus.read(probe);
                    let mut expect = 0u8;
                    let mut k = 0;
                    while k < GROUP_LEN {
                        if GROUPS[g][k].0 == probe && GROUPS[g][k].1 {
                            expect = last[k];
                            hits += 1;
                        }
                        k += 1;
                    }
                    if r.is_ok() != mem::accessible(probe) {
                        ok_class = false;
                    }
                    if let Ok(v) = r {
                        if v != expect {
                            ok_value = false;
                        }
                    }
                }
                m += 1;
            }
            d += 1;
        }
        i += 1;
    }
    witness!(hits > 0 && last[2] != 0 && last[5] != 0, "written locations probed");
    std::mem::forget(cpu);
    verdict!("write_outcome" => ok_outcome, "probe_classification" => ok_class, "probe_value" => ok_value);
}

/// Write classification at the boundary set, without any probe read: every write at a plain address
/// succeeds, every write at an unmapped address (also >= 2^24) fails.  Cheap, and independent of the
/// symbolic-probe harnesses, which CBMC cannot finish when an address that must be rejected is written
/// through to DRAM (seeded change C09b).
pub fn write_outcome<S: Src>(s: &mut S, g: usize) {
    let mut v = [0u8; GROUP_LEN];
    let mut i = 0;
    while i < GROUP_LEN {
        v[i] = s.u8();
        i += 1;
    }
    let mut cpu = Cpu::new();
    let mut ok_outcome = true;
    let mut ok_readback = true;
    i = 0;
    while i < GROUP_LEN {
        let (a, plain) = GROUPS[g][i];
        let r = cpu.bus.write(a, v[i]);
        if r.is_ok() != plain {
            ok_outcome = false;
        }
        // concrete-address read-back: the stored byte, or an error for unmapped addresses
        match cpu.bus.read(a) {
            Ok(x) => {
                if !plain || x != v[i] {
                    ok_readback = false;
                }
            }
            Err(_) => {
                if plain {
                    ok_readback = false;
                }
            }
        }
        i += 1;
    }
    witness!(v[0] != 0 && v[7] != 0, "non-zero values written");
    std::mem::forget(cpu);
    verdict!("write_outcome" => ok_outcome, "readback" => ok_readback);
}

/// Two byte writes at SYMBOLIC addresses followed by a probe read at a third symbolic address, on the real
/// `Bus::read`/`Bus::write` and the real RAM / vector / I/O arrays.  `dram_window` = 0: no access falls
/// into DRAM (its array is replaced by one byte); otherwise every DRAM access is
/// assumed to lie in the first `dram_window` bytes of DRAM.  Decides "no aliasing / persistence" for every
/// pair of write addresses and every probe address of those regions, interior addresses included.
pub fn sym_write_probe<S: Src>(s: &mut S, dram_window: u32) {
    sym_write_probe_n(s, dram_window, 2)
}

/// `writes` = 1: the second write repeats the first address (a store over a store), which keeps the formula smaller.
pub fn sym_write_probe_n<S: Src>(s: &mut S, dram_window: u32, writes: u8) {
    let a1 = s.u32();
    let v1 = s.u8();
    let a2 = s.u32();
    let v2 = s.u8();
    let probe = s.u32();
    s.assume(writes != 1 || a2 == a1);
    let in_dram = |a: u32| a >= 0x400000 && a <= 0x5fffff;
    let dram_ok = |a: u32| !in_dram(a) || (dram_window > 0 && a - 0x400000 < dram_window);
    s.assume(dram_ok(a1) && dram_ok(a2) && dram_ok(probe));
    s.assume(!mem::side_effect_reg(a1) && !mem::side_effect_reg(a2));
    let mut cpu = Cpu::new();
    // the 2 MiB DRAM array is replaced by a short one: a symbolic-index store into the real array is a
    // byte-update over two million elements (out of memory); DRAM accesses outside the window are excluded above
    cpu.bus.dram = if dram_window > 0 { vec![0u8; 4096].into_boxed_slice() } else { vec![0u8; 1].into_boxed_slice() };
    s.assume(dram_window <= 4096);
    let r1 = cpu.bus.write(a1, v1);
    let r2 = cpu.bus.write(a2, v2);
    let r = cpu.bus.read(probe);
    let ok_outcome = r1.is_ok() == mem::accessible(a1) && r2.is_ok() == mem::accessible(a2);
    let ok_class = r.is_ok() == mem::accessible(probe);
    let expect = if probe == a2 && mem::accessible(a2) {
        v2
    } else if probe == a1 && mem::accessible(a1) {
        v1
    } else {
        0
    };
    let ok_value = match r {
        Ok(v) => v == expect,
        Err(_) => true,
    };
    witness!(when: writes == 2, r.is_ok() && probe == a1 && a1 != a2 && v1 != 0 && a1 >= 0xffbf20, "probe reads the first write (RAM or I/O)");
    witness!(r.is_ok() && probe == a2 && a1 == a2 && v1 != v2, "second write to the same address wins");
    witness!(r.is_ok() && probe != a1 && probe != a2 && r1.is_ok() && r2.is_ok(), "probe elsewhere");
    witness!(when: dram_window > 0, r.is_ok() && in_dram(probe) && probe == a1 && v1 != 0, "DRAM write read back");
    witness!(r1.is_err() && a1 > 0xffffff && (a1 & 0xffffff) == probe && r.is_ok(), "write above 2^24 whose low bits are mapped");
    std::mem::forget(cpu);
    verdict!("write_outcome" => ok_outcome, "probe_classification" => ok_class, "probe_value" => ok_value);
}
