//! Footprint memory.
//!
//! Under Kani, `Bus::read` / `Bus::write` are replaced (per harness, `#[kani::stub]`) by
//! `bus_read_stub` / `bus_write_stub`, which implement the bus contract BC (DESIGN 2.3) over a small
//! declared footprint: a code window at the concrete PC and up to `NWIN` data windows at *symbolic*
//! base addresses.  Any access outside the footprint sets a STRAY flag.  BC itself is proved on the
//! real `Bus` by the C09 harnesses.
//!
//! Natively (replay) nothing is stubbed: the same API pokes the bytes into the real `Bus` arrays and
//! detects stray writes by diffing the whole bus against a snapshot.

use crate::bus::Bus;
use crate::cpu::Cpu;
use anyhow::Result;

pub const CODE_MAX: usize = 10;
pub const NWIN: usize = 4;
pub const WCAP: usize = 12;
pub const POOL: usize = 16;

#[derive(Clone, Copy)]
pub struct Win {
    pub base: u32,
    pub len: u32,
    pub data: [u8; WCAP],
    pub written: bool,
    pub read: bool,
}

pub const EMPTY_WIN: Win = Win { base: 0, len: 0, data: [0; WCAP], written: false, read: false };

pub struct Fp {
    pub code_base: u32,
    pub code_len: u32,
    pub code: [u8; CODE_MAX],
    pub win: [Win; NWIN],
    pub stray_read: bool,
    pub stray_write: bool,
    pub code_write: bool,
    pub pool: [u8; POOL],
    pub pool_i: usize,
    pub n_read_err: u32,
    pub n_write_err: u32,
}

pub static mut FP: Fp = Fp {
    code_base: 0,
    code_len: 0,
    code: [0; CODE_MAX],
    win: [EMPTY_WIN; NWIN],
    stray_read: false,
    stray_write: false,
    code_write: false,
    pool: [0; POOL],
    pool_i: 0,
    n_read_err: 0,
    n_write_err: 0,
};

#[cfg(not(kani))]
pub static mut SNAPSHOT: Option<Bus> = None;

/// The bus contract's accessibility predicate (the five mapped ranges of property C09).
#[inline]
pub fn accessible(addr: u32) -> bool {
    addr <= 0xff
        || (addr >= 0x400000 && addr <= 0x5fffff)
        || (addr >= 0xfee000 && addr <= 0xfee0ff)
        || (addr >= 0xffbf20 && addr <= 0xffff1f)
        || (addr >= 0xffff20 && addr <= 0xffffe9)
}

/// Plain storage in the sense of C01/C04: RAM, DRAM or vector area.
#[inline]
pub fn plain_mem(addr: u32) -> bool {
    addr <= 0xff || (addr >= 0x400000 && addr <= 0x5fffff) || (addr >= 0xffbf20 && addr <= 0xffff1f)
}

/// Registers whose write has peripheral side effects in the real `Bus::write`
/// (port DDR, port DR, every register the module manager is notified of = all other I/O bytes;
/// of those only 8TCR0 reacts today).
#[inline]
pub fn side_effect_reg(addr: u32) -> bool {
    (addr >= 0xfee000 && addr <= 0xfee00a) || (addr >= 0xffffd0 && addr <= 0xffffda) || addr == 0xffff80
}

pub fn reset() {
    unsafe {
        FP.code_base = 0;
        FP.code_len = 0;
        FP.code = [0; CODE_MAX];
        FP.win = [EMPTY_WIN; NWIN];
        FP.stray_read = false;
        FP.stray_write = false;
        FP.code_write = false;
        FP.pool = [0; POOL];
        FP.pool_i = 0;
        FP.n_read_err = 0;
        FP.n_write_err = 0;
    }
}

// ------------------------------------------------------------------ stubs (Kani)

pub fn bus_read_stub(_b: &Bus, addr: u32) -> Result<u8> {
    unsafe {
        if !accessible(addr) {
            FP.n_read_err = FP.n_read_err.wrapping_add(1);
            return Err(anyhow::Error::new_opaque());
        }
        if addr >= FP.code_base && addr - FP.code_base < FP.code_len {
            return Ok(FP.code[(addr - FP.code_base) as usize]);
        }
        let mut i = 0;
        while i < NWIN {
            let w = &mut FP.win[i];
            if addr >= w.base && addr - w.base < w.len {
                w.read = true;
                return Ok(w.data[(addr - w.base) as usize]);
            }
            i += 1;
        }
        FP.stray_read = true;
        let v = FP.pool[FP.pool_i & (POOL - 1)];
        FP.pool_i = FP.pool_i.wrapping_add(1);
        Ok(v)
    }
}

pub fn bus_write_stub(_b: &mut Bus, addr: u32, value: u8) -> Result<()> {
    unsafe {
        if !accessible(addr) {
            FP.n_write_err = FP.n_write_err.wrapping_add(1);
            return Err(anyhow::Error::new_opaque());
        }
        if addr >= FP.code_base && addr - FP.code_base < FP.code_len {
            FP.code_write = true;
            FP.code[(addr - FP.code_base) as usize] = value;
            return Ok(());
        }
        let mut i = 0;
        while i < NWIN {
            let w = &mut FP.win[i];
            if addr >= w.base && addr - w.base < w.len {
                w.written = true;
                w.data[(addr - w.base) as usize] = value;
                return Ok(());
            }
            i += 1;
        }
        FP.stray_write = true;
        Ok(())
    }
}

// ------------------------------------------------------------------ common API

#[cfg(not(kani))]
fn poke(bus: &mut Bus, addr: u32, v: u8) {
    match addr {
        0..=0xff => bus.exception_handling_vector[addr as usize] = v,
        0x400000..=0x5fffff => bus.dram[(addr - 0x400000) as usize] = v,
        0xfee000..=0xfee0ff => bus.io_registrs1[(addr - 0xfee000) as usize] = v,
        0xffbf20..=0xffff1f => bus.memory[(addr - 0xffbf20) as usize] = v,
        0xffff20..=0xffffe9 => bus.io_registrs2[(addr - 0xffff20) as usize] = v,
        _ => (),
    }
}

#[cfg(not(kani))]
fn peek_bus(bus: &Bus, addr: u32) -> Option<u8> {
    match addr {
        0..=0xff => Some(bus.exception_handling_vector[addr as usize]),
        0x400000..=0x5fffff => Some(bus.dram[(addr - 0x400000) as usize]),
        0xfee000..=0xfee0ff => Some(bus.io_registrs1[(addr - 0xfee000) as usize]),
        0xffbf20..=0xffff1f => Some(bus.memory[(addr - 0xffbf20) as usize]),
        0xffff20..=0xffffe9 => Some(bus.io_registrs2[(addr - 0xffff20) as usize]),
        _ => None,
    }
}

/// Declares the code window (instruction bytes at the concrete PC).
pub fn set_code(cpu: &mut Cpu, base: u32, bytes: &[u8]) {
    unsafe {
        FP.code_base = base;
        let n = if bytes.len() < CODE_MAX { bytes.len() } else { CODE_MAX };
        FP.code_len = n as u32;
        // (memcpy instead of a loop: keeps the unwinding bound a harness needs small)
        FP.code[..n].copy_from_slice(&bytes[..n]);
    }
    #[cfg(not(kani))]
    for (i, b) in bytes.iter().enumerate() {
        poke(&mut cpu.bus, base + i as u32, *b);
    }
    let _ = cpu;
}

/// Declares data window `idx` = `bytes` at `base` (base may be symbolic).
pub fn set_window(cpu: &mut Cpu, idx: usize, base: u32, bytes: &[u8]) {
    unsafe {
        FP.win[idx].base = base;
        let n = if bytes.len() < WCAP { bytes.len() } else { WCAP };
        FP.win[idx].len = n as u32;
        FP.win[idx].data[..n].copy_from_slice(&bytes[..n]);
        FP.win[idx].written = false;
        FP.win[idx].read = false;
    }
    #[cfg(not(kani))]
    for (i, b) in bytes.iter().enumerate() {
        poke(&mut cpu.bus, base.wrapping_add(i as u32), *b);
    }
    let _ = cpu;
}

/// Like `set_window`, with a (possibly symbolic) length `len <= bytes.len()`.
pub fn set_window_len(cpu: &mut Cpu, idx: usize, base: u32, bytes: &[u8], len: u32) {
    set_window(cpu, idx, base, bytes);
    unsafe {
        FP.win[idx].len = len;
    }
}

/// Pool of values returned for reads outside the footprint (drawn in the harness prologue).
pub fn set_pool(p: [u8; POOL]) {
    unsafe { FP.pool = p }
}

/// Call after all windows are declared and before the code under test runs.
pub fn seal(cpu: &mut Cpu) {
    #[cfg(not(kani))]
    unsafe {
        SNAPSHOT = Some(cpu.bus.clone());
    }
    let _ = cpu;
}

/// Current content of byte `off` of window `idx`.
pub fn win_byte(cpu: &Cpu, idx: usize, off: usize) -> u8 {
    #[cfg(kani)]
    unsafe {
        let _ = cpu;
        FP.win[idx].data[off]
    }
    #[cfg(not(kani))]
    unsafe {
        peek_bus(&cpu.bus, FP.win[idx].base.wrapping_add(off as u32)).unwrap_or(FP.win[idx].data[off])
    }
}

pub fn win_be16(cpu: &Cpu, idx: usize, off: usize) -> u16 {
    ((win_byte(cpu, idx, off) as u16) << 8) | win_byte(cpu, idx, off + 1) as u16
}

pub fn win_be32(cpu: &Cpu, idx: usize, off: usize) -> u32 {
    ((win_be16(cpu, idx, off) as u32) << 16) | win_be16(cpu, idx, off + 2) as u32
}

/// Current content of code byte `off`.
pub fn code_byte(cpu: &Cpu, off: usize) -> u8 {
    #[cfg(kani)]
    unsafe {
        let _ = cpu;
        FP.code[off]
    }
    #[cfg(not(kani))]
    unsafe {
        peek_bus(&cpu.bus, FP.code_base + off as u32).unwrap_or(FP.code[off])
    }
}

/// True iff something outside the declared windows was written.  A *read* outside the footprint is
/// not an observable effect by itself: it returns an arbitrary pre-drawn byte, so a load from the wrong
/// place shows up as a wrong value, and an over-read that runs off a mapped region as an error -- both
/// reproduce on the native build, which a bare "stray read" flag would not.
#[allow(static_mut_refs)]
pub fn stray(cpu: &Cpu) -> bool {
    #[cfg(kani)]
    unsafe {
        let _ = cpu;
        FP.stray_write || FP.code_write
    }
    #[cfg(not(kani))]
    unsafe {
        let snap = match &SNAPSHOT {
            Some(s) => s,
            None => return false,
        };
        let in_win = |a: u32| -> bool {
            let mut i = 0;
            while i < NWIN {
                let w = &FP.win[i];
                if a >= w.base && a - w.base < w.len {
                    return true;
                }
                i += 1;
            }
            false
        };
        let regions: [(u32, &[u8], &[u8]); 5] = [
            (0, &snap.exception_handling_vector, &cpu.bus.exception_handling_vector),
            (0x400000, &snap.dram, &cpu.bus.dram),
            (0xfee000, &snap.io_registrs1, &cpu.bus.io_registrs1),
            (0xffbf20, &snap.memory[..], &cpu.bus.memory[..]),
            (0xffff20, &snap.io_registrs2, &cpu.bus.io_registrs2),
        ];
        for (base, old, new) in regions.iter() {
            if old == new {
                continue;
            }
            for i in 0..old.len() {
                if old[i] != new[i] && !in_win(base + i as u32) {
                    return true;
                }
            }
        }
        snap.io_port_in != cpu.bus.io_port_in
    }
}

pub fn stray_write_only(cpu: &Cpu) -> bool {
    #[cfg(kani)]
    unsafe {
        let _ = cpu;
        FP.stray_write || FP.code_write
    }
    #[cfg(not(kani))]
    {
        stray(cpu)
    }
}

pub fn window_written(idx: usize) -> bool {
    unsafe { FP.win[idx].written }
}

pub fn window_read(idx: usize) -> bool {
    unsafe { FP.win[idx].read }
}

/// Two address ranges [a, a+la) and [b, b+lb) are disjoint (no wrap: callers assume a+la <= 2^24).
#[inline]
pub fn disjoint(a: u32, la: u32, b: u32, lb: u32) -> bool {
    a.wrapping_add(la) <= b || b.wrapping_add(lb) <= a
}
