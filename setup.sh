#!/bin/bash
# Offline setup: generate the harness crate from /repo and warm one Kani target dir + the native replay binary.
set -e
cd "$(dirname "$0")"
export CARGO_NET_OFFLINE=true
./check --gen
cd kani
RUSTFLAGS="--cfg koge29_verif" cargo build --offline --bin replay --target-dir target/native >/dev/null 2>&1 || true
echo "setup done"
