#!/bin/bash
export SEED_OUT=/verif
export VERIF_JOBS=4
run() { [ -f /tmp/seed_$1/patch.diff ] || { echo "no patch for $1"; return; }; python3 vlib/seedtest.py /tmp/seed_$1 $2 $3 --isolated ${4:+--only $4} > /tmp/seedrun_$2.out 2>&1; tail -1 /tmp/seedrun_$2.out; }
run C19c C19c C19
run C13d C13d C13
run C14c C14c C14
run C07c C07c C07
run C08c C08c C08
run C15c C15c C15
