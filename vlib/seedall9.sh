#!/bin/bash
export SEED_OUT=/verif
export VERIF_JOBS=4
run() { python3 vlib/seedtest.py /tmp/seed_$1 $2 $3 --isolated ${4:+--only $4} > /tmp/seedrun_$2.out 2>&1; tail -1 /tmp/seedrun_$2.out; }
run C12a C12a-double-align-stack C12 args0_r13
run C11b C11b-got-relocated-twice-adjacent C11 v2_adjacent
run C12b C12b-exit-symbol-index0-skipped C12 args0_r13
