#!/bin/bash
# fourth-session seed wave, isolated mode (see seedtest.py --isolated); run via `vp run` from a snapshot
export SEED_OUT=/verif
run() { python3 vlib/seedtest.py /tmp/seed_$1 $2 $3 --isolated ${4:+--only $4} > /tmp/seedrun_$2.out 2>&1; tail -1 /tmp/seedrun_$2.out; }
run C16c C16c-stale-announce-cache C16
run C17c C17c-stop-restart-phase C17
run C05c C05c-disp8-page-carry C05
run C03c C03c-xorb-same-reg C03 xor_b
run C20c C20c-bset-value-dependent C20 bset
run C09c C09c-io2-compare-io1 C09
run C14b C14b-utf8-block-256 C14
run C13c C13c-sync-exact-multiple C13
