#!/bin/bash
cd /verif
run() { python3 vlib/seedtest.py /tmp/seed_$1 $2 $3 ${4:+--only $4} > /tmp/seedrun_$2.out 2>&1; tail -1 /tmp/seedrun_$2.out; }
run C19b C19b-wcrh-reversed C19
run C16b C16b-pin-ignored-full-output C16
run C10b C10b-min-vector-pop-front C10
run C13b C13b-update-after-exit C13
run C09b C09b-write-masks-addr C09 write_then_probe
run C07b C07b-mulxs-divxs-prefix C07 muldivxs
run C03b C03b-orl-imm-swapped C03 or_l
run C15b C15b-ram-fastpath-oob C15 mov_w
