#!/bin/bash
export SEED_OUT=/verif
export VERIF_JOBS=5
run() { python3 vlib/seedtest.py /tmp/seed_$1 $2 $3 --isolated ${4:+--only $4} > /tmp/seedrun_$2.out 2>&1; tail -1 /tmp/seedrun_$2.out; }
run C04c C04c-bclr-rn-bitreg-mask C04 bclr
run C01c C01c-disp16-saturating C01 disp16
run C02c C02c-divxu-flags-reread-divisor C02 divxu
run C06c C06c-vector63-guard C06 interrupt
run C10c C10c-vector63-dropped C10
( cd /tmp/seed_C18b && git checkout -q -- src && git apply patch.diff )
VERIF_REPO=/tmp/seed_C18b ./check C18 > /tmp/seedrun_C18b.out 2>&1; echo "C18b check exit $?"; grep -E "^VIOLATION|^OK|^INCONCLUSIVE" /tmp/seedrun_C18b.out | cut -c1-300
