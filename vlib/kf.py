#!/usr/bin/env python3
"""kf.py fixed <ID> <PROP> <commit> <what>   -- append a 'fixed' record to known_findings.json (development-time tool)."""
import json, os, sys
P = os.path.join(os.path.dirname(os.path.dirname(os.path.abspath(__file__))), "known_findings.json")
d = json.load(open(P))
if sys.argv[1] == "fixed":
    _, _, kid, prop, commit, what = sys.argv
    d["findings"] = [f for f in d["findings"] if f["id"] != kid]
    d["findings"].append({"id": kid, "property": prop, "status": "fixed", "commit": commit, "what": what,
                          "record": f"fixed: property={prop} {commit} {what}"})
json.dump(d, open(P, "w"), indent=1)
