#!/bin/bash
cd /verif
run() { python3 vlib/seedtest.py /tmp/seed_$1 $2 $1 ${3:+--only $3} > /tmp/seedrun_$2.out 2>&1; tail -1 /tmp/seedrun_$2.out; }
run C15 C15-btst-mask btst
run C16 C16-ddr-announce
run C17 C17-tick-shadow
run C05 C05-bsr16-sp bsr
run C06 C06-trapa-masked
run C14 C14-overread
run C09 C09-long-fastpath composition_g3
