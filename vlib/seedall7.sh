#!/bin/bash
export SEED_OUT=/verif
run() { python3 vlib/seedtest.py /tmp/seed_$1 $2 $3 --isolated ${4:+--only $4} > /tmp/seedrun_$2.out 2>&1; tail -1 /tmp/seedrun_$2.out; }
run C11a C11a-got-skip-onchip-values C11 got_v1
run C12a C12a-double-align-stack C12 args0_r13
# C18a has a demo.sh (TCP), not a demo.diff: only the check is run here
( cd /tmp/seed_C18a && git checkout -q -- . && git apply patch.diff )
VERIF_REPO=/tmp/seed_C18a ./check C18 > /tmp/seedrun_C18a.out 2>&1; echo "C18a check exit $?"; tail -2 /tmp/seedrun_C18a.out
