"""Runs Kani harnesses, parses CBMC output, replays counterexamples natively, writes evidence."""
import fcntl
import json
import os
import re
import shutil
import subprocess
import sys
import time
from concurrent.futures import ThreadPoolExecutor

import gen
import specs as specmod

VERIF = gen.VERIF
KANI = gen.KANI
REPO = gen.REPO
TARGET = os.path.join(KANI, "target")
LOGS = os.path.join(VERIF, "logs")
NSLOTS = int(os.environ.get("VERIF_SLOTS", "12"))

ENV = dict(os.environ)
ENV["CARGO_NET_OFFLINE"] = "true"
ENV["RUSTFLAGS"] = "--cfg koge29_verif"
ENV.pop("RUSTC_WRAPPER", None)

CHECK_RE = re.compile(
    r"^Check \d+: (?P<name>.+)\n\s+- Status: (?P<status>\w+)\n\s+- Description: \"(?P<desc>.*)\"\n(?:\s+- Location: (?P<loc>.*)\n)?",
    re.M,
)


class Slot:
    """A target directory that only one cargo-kani process uses at a time (across check processes)."""

    def __init__(self):
        self.fd = None
        self.idx = None

    def __enter__(self):
        os.makedirs(TARGET, exist_ok=True)
        while True:
            for i in range(NSLOTS):
                p = os.path.join(TARGET, f"slot{i}.lock")
                fd = os.open(p, os.O_CREAT | os.O_RDWR)
                try:
                    fcntl.flock(fd, fcntl.LOCK_EX | fcntl.LOCK_NB)
                    self.fd, self.idx = fd, i
                    return os.path.join(TARGET, f"w{i}")
                except OSError:
                    os.close(fd)
            time.sleep(0.5)

    def __exit__(self, *a):
        fcntl.flock(self.fd, fcntl.LOCK_UN)
        os.close(self.fd)


def gen_locked():
    os.makedirs(TARGET, exist_ok=True)
    with open(os.path.join(TARGET, "gen.lock"), "w") as lf:
        fcntl.flock(lf, fcntl.LOCK_EX)
        handlers = gen.generate(specmod.SPECS)
        fcntl.flock(lf, fcntl.LOCK_UN)
    return handlers


def kani_cmd(name, target_dir, playback=False, cbmc_args=(), properties=()):
    chunk = gen.chunk_of(specmod.SPECS).get(name, "gen_k<chunk>")
    cmd = ["cargo", "kani", "-Z", "stubbing", "--no-assertion-reach-checks", "--target-dir", target_dir, "--features", chunk,
           "--exact", "--harness", f"{chunk}::{name}"]
    if playback:
        cmd += ["-Z", "concrete-playback", "--concrete-playback=print"]
    extra = list(cbmc_args)
    for pr in properties:
        # counterexample extraction only for the failed checks: one SAT call each on the unsliced formula
        # instead of one per property group (measured: 70 s per call on the C09 composition harness)
        extra += ["--property", pr]
    if extra:
        cmd += ["-Z", "unstable-options", "--cbmc-args"] + extra
    return cmd


def run_limited(cmd, log_path, timeout, mem_gb, cwd=KANI):
    """Runs cmd under ulimit -v and a timeout; returns (rc, seconds, timed_out)."""
    t0 = time.time()
    sh = f"ulimit -v {int(mem_gb * 1024 * 1024)}; exec " + " ".join(map(lambda c: "'" + c + "'", cmd))
    with open(log_path, "w") as lf:
        p = subprocess.Popen(["bash", "-c", sh], cwd=cwd, env=ENV, stdout=lf, stderr=subprocess.STDOUT, start_new_session=True)
        try:
            rc = p.wait(timeout=timeout)
            to = False
        except subprocess.TimeoutExpired:
            import signal

            os.killpg(p.pid, signal.SIGKILL)
            p.wait()
            rc, to = -9, True
    return rc, time.time() - t0, to


def parse_log(text):
    r = {"checks_total": 0, "failed": [], "covers": {}, "stubs": [], "vars": 0, "clauses": 0, "solver_s": 0.0, "symex_s": 0.0,
         "verdict": None, "verification_time": None}
    for m in CHECK_RE.finditer(text):
        r["checks_total"] += 1
        st, desc, loc = m.group("status"), m.group("desc"), m.group("loc") or ""
        if desc.startswith("W:") or desc.startswith("KF:"):
            r["covers"][desc] = st
        elif st not in ("SUCCESS",):
            # FAILURE, UNDETERMINED, UNREACHABLE(only with reach checks)
            r["failed"].append({"check": m.group("name"), "status": st, "desc": desc, "loc": loc})
    r["stubs"] = re.findall(r"^\s+- Stub: (.*)$", text, re.M)
    vc = re.findall(r"^(\d+) variables, (\d+) clauses", text, re.M)
    if vc:
        r["vars"], r["clauses"] = max(int(a) for a, _ in vc), max(int(b) for _, b in vc)
    r["solver_s"] = round(sum(float(x) for x in re.findall(r"^Runtime decision procedure: ([\d.e+-]+)s", text, re.M)), 3)
    r["solver_queries"] = len(re.findall(r"^Runtime decision procedure:", text, re.M))
    sx = re.findall(r"^Runtime Symex: ([\d.e+-]+)s", text, re.M)
    r["symex_s"] = round(sum(float(x) for x in sx), 3)
    if "VERIFICATION:- SUCCESSFUL" in text:
        r["verdict"] = "SUCCESSFUL"
    elif "VERIFICATION:- FAILED" in text:
        r["verdict"] = "FAILED"
    m = re.search(r"^Verification Time: ([\d.]+)s", text, re.M)
    if m:
        r["verification_time"] = float(m.group(1))
    return r


def parse_playback(text):
    """Extracts the concrete_vals vectors of every generated playback test."""
    tests = []
    for m in re.finditer(r"let concrete_vals: Vec<Vec<u8>> = vec!\[(.*?)\n\s*\];", text, re.S):
        vals = []
        for v in re.finditer(r"vec!\[([^\]]*)\]", m.group(1)):
            body = v.group(1).strip()
            vals.append([int(x) for x in body.split(",") if x.strip()] if body else [])
        tests.append(vals)
    return tests


def build_replay(profile):
    """Builds the native replay binary (real Bus, no stubs) in the given profile."""
    tdir = os.path.join(TARGET, "native")
    cmd = ["cargo", "build", "--offline", "--bin", "replay", "--target-dir", tdir]
    if profile == "release":
        cmd.append("--release")
    os.makedirs(LOGS, exist_ok=True)
    with open(os.path.join(TARGET, "native.lock"), "w") as lf:
        fcntl.flock(lf, fcntl.LOCK_EX)
        p = subprocess.run(cmd, cwd=KANI, env=ENV, stdout=subprocess.PIPE, stderr=subprocess.STDOUT, text=True)
        fcntl.flock(lf, fcntl.LOCK_UN)
    if p.returncode != 0:
        raise RuntimeError("native replay build failed:\n" + p.stdout[-3000:])
    return os.path.join(tdir, "release" if profile == "release" else "debug", "replay")


def native_replay(name, vals, profile):
    exe = build_replay(profile)
    os.makedirs(LOGS, exist_ok=True)
    vf = os.path.join(LOGS, f"{name}.{profile}.{os.getpid()}.vals")
    with open(vf, "w") as f:
        for v in vals:
            f.write(" ".join(f"{b:02x}" for b in v) + "\n")
    p = subprocess.run([exe, name, vf], stdout=subprocess.PIPE, stderr=subprocess.STDOUT, text=True, timeout=120)
    os.unlink(vf)
    out = p.stdout
    res = {
        "profile": profile,
        "failed": re.findall(r"^FAILED (.*)$", out, re.M),
        "panic": re.findall(r"^PANIC (.*)$", out, re.M),
        "known": re.findall(r"^KNOWN (\S+) listed=(\w+)$", out, re.M),
        "assumption_failed": "ASSUMPTION-FAILED" in out,
        "underflow": "VALUES-UNDERFLOW" in out,
        "done": "DONE" in out,
        "rc": p.returncode,
    }
    return res


def run_harness(spec, tier):
    name = spec["name"]
    os.makedirs(LOGS, exist_ok=True)
    log_path = os.path.join(LOGS, f"{name}.log")
    timeout = spec["timeout"] * (3 if tier == "thorough" else 1)
    with Slot() as tdir:
        rc, secs, to = run_limited(kani_cmd(name, tdir, cbmc_args=spec.get("cbmc_args", ())), log_path, timeout, spec["mem_gb"])
        text = open(log_path, errors="replace").read()
        res = parse_log(text)
        res["ignored_model_failures"] = []
        if spec.get("ignore_dealloc"):
            # ELF-loader harnesses only: CBMC reports config-dependent failures of the deallocation preconditions in Kani's
            # own C library (`__rust_dealloc` in kani_lib.c) when `load` drops its heap values - pointers read back from
            # byte-typed heap buffers that are field-sensitive under --max-field-sensitivity-array-size 1024.  They do not
            # reproduce natively, `load` contains no unsafe code, and they are not checks of the emulator's source
            # (DESIGN 3c).  They are removed from the verdict and counted in the evidence.
            keep = []
            for f in res["failed"]:
                if "kani_lib.c" in f["loc"] and "__rust_dealloc" in f["loc"]:
                    res["ignored_model_failures"].append(f["desc"])
                else:
                    keep.append(f)
            if res["ignored_model_failures"] and not keep and res["verdict"] == "FAILED":
                res["verdict"] = "SUCCESSFUL"
            res["failed"] = keep
        res.update({"name": name, "wall_s": round(secs, 1), "rc": rc, "timed_out": to, "spec": spec, "playback": []})
        res["state"] = classify(res, text)
        if res["state"] == "failed" and not os.environ.get("VERIF_NO_PLAYBACK"):
            # counterexample extraction
            pb_log = os.path.join(LOGS, f"{name}.playback.log")
            failed_names = []
            for f in res["failed"]:
                if f["status"] == "FAILURE" and f["check"] not in failed_names and "'" not in f["check"]:
                    failed_names.append(f["check"])
            rc2, secs2, to2 = run_limited(kani_cmd(name, tdir, playback=True, cbmc_args=spec.get("cbmc_args", ()), properties=failed_names[:4]),
                                          pb_log, max(timeout * 2, 3600), 48)
            res["playback"] = parse_playback(open(pb_log, errors="replace").read())
            res["playback_s"] = round(secs2, 1)
        # disk hygiene: every feature set leaves its own rmeta/goto artifacts (hundreds of MB per harness)
        base = os.path.join(tdir, "kani", "x86_64-unknown-linux-gnu", "debug")
        for sub in (os.path.join("build", "h8verif"), "incremental"):
            shutil.rmtree(os.path.join(base, sub), ignore_errors=True)
    return res


def classify(res, text):
    if res["timed_out"]:
        return "timeout"
    if "ran out of memory" in text or "Out of memory" in text or "std::bad_alloc" in text:
        return "oom"
    if res["verdict"] is None:
        if "error: internal compiler error" in text or "Kani unexpectedly panicked" in text:
            return "ice"
        if re.search(r"^error(\[E\d+\])?:", text, re.M):
            return "compile_error"
        return "error"
    # a violated aspect is a real bounded execution even if some loop elsewhere exceeded its unwinding bound on another
    # path (seed C14c: a call number routed to write() with an unbounded length); it goes on to extraction + native replay
    aspect_fail = any(f["status"] == "FAILURE" and f["desc"].startswith("aspect:") for f in res["failed"])
    if any("unwinding assertion" in f["desc"] for f in res["failed"]) and not aspect_fail:
        return "unwind"
    if any(f["status"] == "UNDETERMINED" for f in res["failed"]) and not any(f["status"] == "FAILURE" for f in res["failed"]):
        return "error"
    bad_w = [k for k, v in res["covers"].items() if k.startswith("W:") and v != "SATISFIED"]
    if res["verdict"] == "FAILED" and any(f["status"] == "FAILURE" for f in res["failed"]):
        return "failed"
    if res["verdict"] == "FAILED":
        return "error"
    if bad_w:
        res["vacuous"] = bad_w
        return "vacuous"
    return "ok"
