#!/bin/bash
# development-time: evaluate all seeded changes sequentially (needs exclusive use of /repo)
cd /verif
run() { python3 vlib/seedtest.py /tmp/seed_$1 $2 $1 ${3:+--only $3} > /tmp/seedrun_$2.out 2>&1; tail -1 /tmp/seedrun_$2.out; }
run C19 C19-wait-hoist
run C16 C16-ddr-announce
run C10 C10-dedup
run C17 C17-tick-shadow
run C09 C09-long-fastpath
run C13 C13-chunk-255
run C07 C07-movfpe-mask
run C03 C03-rotxl-z rotxl
run C02 C02-addx-v addx
run C04 C04-bst-skip bst
run C05 C05-bsr16-sp bsr
run C06 C06-trapa-masked
run C01 C01-predec-w-upper mov_w
run C08 C08-disp24-rem disp24
run C14 C14-overread
run C15 C15-btst-mask btst
run C20 C20-movl-reread mov_l
