#!/usr/bin/env python3
"""Writes /verif/MANIFEST.json from the harness registry (specs.py) and propinfo.py."""
import json
import os
import subprocess
import sys

HERE = os.path.dirname(os.path.abspath(__file__))
sys.path.insert(0, HERE)
import propinfo  # noqa: E402
import specs  # noqa: E402

VERIF = os.path.dirname(HERE)
props = [json.loads(l) for l in open(os.path.join(VERIF, "properties.jsonl"))]
claimed = specs.properties()

hook_commits = subprocess.run(["git", "-C", "/repo", "log", "--format=%H %s"], capture_output=True, text=True).stdout.splitlines()
hook_commits = [l.split()[0] for l in hook_commits if "verif hook" in l]

checks = []
na = []
for p in props:
    pid = p["id"]
    info = propinfo.INFO.get(pid, {})
    if pid in claimed and not info.get("not_applicable"):
        checks.append({
            "property_id": pid,
            "quick_cmd": f"./check {pid} --tier quick",
            "thorough_cmd": f"./check {pid} --tier thorough",
            "evidence_file": f"/verif/evidence/{pid}.json",
            "replay_cmd_template": "./check --replay {path}",
            "engine": "kani-cbmc",
            "level_claimed": {
                "category": "model_checking",
                "text": info.get("level_text", "Bounded model checking (Kani/CBMC, CaDiCaL) of the real emulator functions with symbolic inputs; "
                                 "the SAT verdict covers every value inside the stated bounds; counterexamples are replayed on the native build."),
                "design_ref": f"DESIGN.md section 3 ({pid})",
            },
            "level_note": info.get("level_note", "Trusted: Kani MIR->goto translation, CBMC, CaDiCaL, the opaque anyhow model, the reference model "
                                   "(harness/refmodel.rs), the footprint-memory stub (proved against the real Bus in C09). Bounds: " + info.get("bounds", "")),
            "technique": info.get("technique", "Kani/CBMC bounded model checking of the compiled Rust code vs. a reference model (SAT, symbolic inputs)"),
        })
    else:
        na.append({"property_id": pid, "reason": info.get("na_reason", "check not built yet (work in progress)")})

m = {
    "version": 1,
    "setup_cmd": "./setup.sh",
    "hooks": {
        "guard": "koge29_verif",
        "enable": "RUSTFLAGS=--cfg koge29_verif (the generated crate /verif/kani symlinks /repo/src and is built by cargo kani / cargo build)",
        "baseline_off_cmd": "cd /repo && cargo test --workspace --no-fail-fast --offline",
        "source_commits": hook_commits,
        "add_only": True,
    },
    "engines": [
        {"name": "kani-cbmc", "path": "/verif/check", "serves_properties": [c["property_id"] for c in checks],
         "kind_free_text": "Kani 0.68 / CBMC 6.11 harnesses (generated crate /verif/kani over symlinks to /repo/src), native replay of counterexamples"},
    ],
    "checks": checks,
    "notes": propinfo.NOTES,
    "not_applicable": na,
}
json.dump(m, open(os.path.join(VERIF, "MANIFEST.json"), "w"), indent=1)
print("claimed:", [c["property_id"] for c in checks], "n/a:", [n["property_id"] for n in na])
