"""Per-property description of what the harnesses encode, their bounds and assumptions (goes into the evidence
and into MANIFEST.json)."""

COMMON_INSTR = [
    "one instruction = real Cpu::fetch + real Cpu::exec (through the guarded hook Cpu::vh_step), PC concrete per harness "
    "(on-chip RAM H'FFCF20 in quick, additionally DRAM H'416900 in thorough)",
    "Bus::read/Bus::write replaced by the footprint memory (harness/mem.rs) implementing the bus contract proved in C09; "
    "any access outside the declared operand windows fails the `mem` aspect",
    "Cpu::calc_state_with_addr replaced by a logging stub returning arbitrary costs < 40 (the cost function itself is C19)",
    "instruction handlers that are not on the path of the form under test are replaced by ghosts (a ghost hit fails `route`)",
    "anyhow replaced by an opaque-error model crate; std::fmt::format returns an empty string (message texts are outside every claim)",
    "operand windows pairwise disjoint and disjoint from the instruction's own bytes (self-modifying / self-overlapping operands outside the claim)",
]

INFO = {
    "C01": {
        "functions": ["Cpu::fetch", "Cpu::exec", "Cpu::mov_b/mov_w/mov_l and every sub-handler", "read/write_{rn,ern,disp16,disp24,inc_ern,dec_ern,abs8,abs16,abs24}_{b,w,l}"],
        "bounds": "one instruction per harness, no loop; all register fields, all 8 register contents (2^256), all data values, all 256 CCR values, "
                  "every effective address in RAM/DRAM/vector area with arbitrary upper byte of the address register, all displacement / absolute address bits",
        "outside": "operands in I/O register space; operands overlapping the instruction bytes; data register = address register in @ERn+/@-ERn forms (the property's own exclusions)",
        "assumptions": COMMON_INSTR + ["encodings restricted to the manual's valid MOV encodings (reserved bits as printed)"],
    },
    "C02": {
        "functions": ["Cpu::exec", "add_b/w/l(_imm,_rn)", "sub_b/w/l", "cmp_*", "addx_*", "neg_*", "inc_*", "dec_*", "adds*", "subs*", "mulxu_*", "divxu_*", "read/write_rn_*"],
        "bounds": "one instruction per harness; both operands at full width (ADD.L/SUB.L/CMP.L over all 2^64 operand pairs), carry-in, all register fields, all CCR values; "
                  "MULXU.W 16x16 at full width; DIVXU.B at full width; DIVXU.W with divisor < 16 (quick) / < 256 (thorough); DIVXU under divisor != 0 and quotient fits",
        "outside": "DIVXU.W with a divisor >= 256 (CaDiCaL gave no answer within 30 minutes in three formulations); DIVXU with zero divisor / overflowing quotient (excluded by the property)",
        "assumptions": COMMON_INSTR + ["DIVXU result checked through the Euclidean relation q*d+r = a, r < d on the emulator's output (unique solution)"],
    },
    "C03": {
        "functions": ["Cpu::exec", "and_/or_/xor_{b,w,l}_{imm,rn}", "not_*", "extu_*", "shal/shar/shll/shlr/rotl/rotr/rotxl/rotxr _{b,w,l}"],
        "bounds": "one instruction per harness; all operand values at full width (32-bit forms over all 2^32 / 2^64 values), all register fields, all CCR values",
        "outside": "nothing inside one instruction",
        "assumptions": COMMON_INSTR,
    },
    "C04": {
        "functions": ["Cpu::exec", "bset/bclr/bnot/btst/bst/bist/bld/bild/band/biand/bor/bior/bxor/bixor x {rn, ern, abs}"],
        "bounds": "one instruction per harness; operand byte (256), bit number (3-bit immediate or all 256 values of the bit-number register), C, all register fields, "
                  "@ERd over every accessible address with arbitrary upper register byte, @aa:8 over the whole page",
        "outside": "operands at port DDR/DR and timer registers (H'FFFF60-9F) as the property says",
        "assumptions": COMMON_INSTR,
    },
    "C05": {
        "functions": ["Cpu::exec", "bcc + 32 condition handlers", "pc_disp8/pc_disp16", "jmp_*", "bsr_*", "jsr_*", "rts", "write_dec_ern_l/read_inc_ern_l", "Cpu::fetch (symbolic PC lemma)"],
        "bounds": "one instruction per harness (two for call->RTS round trips); condition number, all CCR values, every even displacement, every target register value, "
                  "SP anywhere in RAM/DRAM/vector area with arbitrary upper byte; pc_disp8/16 and fetch with a symbolic PC (position independence)",
        "outside": "call/return nesting deeper than one level is an induction over the single-step results (each holds from an arbitrary pre-state), not a solver run; "
                   "branch targets that leave the 24-bit space; JSR @ER7",
        "assumptions": COMMON_INSTR,
    },
    "C06": {
        "functions": ["Cpu::exec", "trapa", "rte", "Cpu::interrupt", "write_dec_ern_l/read_inc_ern_l", "read_abs24_l"],
        "bounds": "TRAPA #1-#3, interrupt vectors 1..=63, RTE; all CCR values, all vector contents (non-zero top byte included), SP anywhere in plain memory; "
                  "entry->RTE round trips (two steps)",
        "outside": "nesting deeper than one entry (induction over the single-step results); vectors >= 64",
        "assumptions": COMMON_INSTR + ["CCR after entry may have UI set or not (the property allows both)"],
    },
    "C07": {
        "functions": ["Cpu::exec (whole decoder)", "handlers the decoder routes the unimplemented encodings to (mov_l.rs, cmp_l.rs, stc.rs, mov_b.rs) kept real"],
        "bounds": "every encoding of NOP, SLEEP, LDC (#imm, Rs, six .W memory forms), ANDC/ORC/XORC, SUBX, DAA, DAS, EXTS, MULXS/DIVXS, EEPMOV, MOVFPE/MOVTPE with all "
                  "remaining opcode bits, all following words, all registers and all memory contents symbolic: execution must end in Err; implemented encodings are decided "
                  "form by form in C01-C06/C08 (aspects route, pc, outcome)",
        "outside": "bit patterns that are not H8/300H instructions at all (the property does not constrain them)",
        "assumptions": COMMON_INSTR + ["memory: every mapped read returns an arbitrary byte"],
    },
    "C08": {
        "functions": ["get_addr_ern", "get_addr_disp16", "get_addr_disp24", "get_addr_abs8", "get_addr_abs16", "stc_w_* / stc_abs16 / stc_abs24",
                      "all MOV memory forms, bit-op @ERd/@aa:8 representatives, JMP/JSR @@aa:8, BSR, RTS, RTE, TRAPA (footprint `mem` and `regs` aspects)"],
        "bounds": "pure helpers: every base (2^32), displacement (2^16 / 2^24) and aa value; instruction level: one instruction, address register fully symbolic including the upper byte",
        "outside": "STC's data layout (not part of any property)",
        "assumptions": COMMON_INSTR,
    },
    "C09": {
        "functions": ["Bus::read", "Bus::write (real arrays)", "Cpu::read_abs24_{b,w,l}", "Cpu::write_abs24_{b,w,l}"],
        "bounds": "read classification: every 32-bit address; writes at an enumerated boundary set of 48 concrete addresses (both ends +-1 of every region, interior points, "
                  "addresses >= 2^24 that would alias) with symbolic values in two rounds, followed by ONE probe read at a fully symbolic 32-bit address "
                  "(for the DRAM group the probe is an enumerated set of 64 concrete addresses); 16/32-bit composition at the same boundary set",
        "outside": "write address fully symbolic (CBMC bit-blasts the 2 MiB DRAM array: out of memory, measured); port DDR/DR registers (C16)",
        "assumptions": ["no stub at all on the bus", "fresh bus from Cpu::new() (all zero) plus the harness's own writes"],
    },
    "C10": {
        "functions": ["Cpu::try_interrupt", "Cpu::interrupt", "InterruptController::request_interrupt", "VecDeque<u8> push_back/pop_front"],
        "bounds": "one boundary step from a pending queue of length 0,1,2,3 (one harness each) with arbitrary vectors 1..=63, arbitrary CCR, PC, SP; FIFO append of 5 requests",
        "outside": "queues longer than 3 (induction over boundary steps from the arbitrary-queue pre-state); 'only at instruction boundaries' is the call order checked in C13",
        "assumptions": ["footprint memory as in C01-C06"],
    },
    "C13": {
        "functions": ["Cpu::run (real)", "Cpu::init_registers", "Cpu::print_er"],
        "bounds": "4 loop iterations; each scripted instruction outcome (Ok/Err), charged states (0..=85 and 0..=255) and next PC symbolic; exit address, start address, initial state sum, host clock values symbolic",
        "outside": "the `sync:` message clause (needs >= 2615 iterations of a loop whose counter is a local variable); whole programs beyond 4 instructions; wall-clock pacing (sleep branch needs >= 27 iterations)",
        "assumptions": ["Cpu::fetch, Cpu::exec, Cpu::try_interrupt, ModuleManager::update_modules, Cpu::send_message replaced by scripted/logging stubs",
                        "Instant::now / Instant::elapsed / SpinSleeper::sleep / SpinSleeper::default replaced by stubs returning arbitrary values (determinism = no assertion mentions them)"],
    },
    "C14": {
        "functions": ["Cpu::trapa", "Cpu::trapa_emulate_mes2", "read/write_abs24_l", "read_abs24_b", "String::from_utf8"],
        "bounds": "write: length 0..=4 bytes (unwind 18), every valid UTF-8 content of that length, argument block and buffer anywhere in plain memory; set_handler: every 32-bit vector number, 24-bit handler address; any other call number",
        "outside": "lengths > 4 (the copy loop is uniform); the console print! (not observable); the text of the `stdout:` line (format stubbed: the string handed to send_stdout_message is compared)",
        "assumptions": COMMON_INSTR + ["Cpu::send_stdout_message replaced by a recording stub under Kani (natively a channel-backed socket captures the real message)", "ER1 and the buffer address below 2^24"],
    },
    "C15": {
        "functions": ["Cpu::fetch", "Cpu::exec", "every instruction handler (one harness per source file under src/cpu/instruction)", "Cpu::interrupt", "addressing-mode helpers"],
        "bounds": "one instruction with ALL opcode bits, registers, CCR and memory bytes symbolic and no operand assumption; decided = no failed Kani check (panic, unwrap, arithmetic/shift overflow, "
                  "index, division) in the emulator's source; PC placements: RAM, DRAM start/end, vector area; TRAPA write length <= 4",
        "outside": "control-channel lines (C18); run()'s own arithmetic is covered by C13's harness; optimized-build verdict is derived (release removes only overflow aborts) and confirmed by native replay in both profiles",
        "assumptions": COMMON_INSTR[1:],
    },
    "C16": {
        "functions": ["Bus::on_write_ddr", "Bus::on_write_dr", "Bus::write_port", "Bus::write / Bus::read (real, concrete port addresses)"],
        "bounds": "one operation from an arbitrary (DDR, latch, pin) state on a symbolic port 1..=11 with a second symbolic port untouched; histories of 3 operations from reset on ports 1 and 11 (6 in thorough) through the real Bus::write",
        "outside": "histories longer than 3 (covered by the single-operation step from an arbitrary state)",
        "assumptions": ["Bus::send_io_port_value replaced by a recording stub under Kani (natively the real mpsc message is parsed)"],
    },
    "C17": {
        "functions": ["Timer8_0::update_timer8_0", "Timer8_0::update_tcr", "ModuleManager::write_registers/update_modules", "Bus::write (TCR0 address)"],
        "bounds": "one update with charge 1..=64 (quick) / 1..=255 (thorough) from an arbitrary TCR, TCNT, TCORA, TCORB, TCSR and residual < divisor; unwind 42 (<= 33 ticks); TCR rewrite for all old/new values; partition lemma for all residuals and charges",
        "outside": "external / cascaded clock selects 4-7; simultaneous compare matches with a clear source (the property's exclusions); CPU writes to TCNT/TCORx/TCSR are plain stores (C09)",
        "assumptions": ["timer residual set through the guarded accessor", "registers poked directly into Bus::io_registrs2"],
    },
    "C19": {
        "functions": ["Cpu::calc_state_with_addr", "Cpu::calc_state", "Cpu::get_wait_state", "Bus::get_area_index",
                      "Bus::check_dram_area", "Bus::read (real, five constant register addresses)"],
        "bounds": "no loop; kind in 6 kinds, count 1..=5, target address all 2^24 values, ABWCR/ASTCR/WCRH/WCRL/DRCRA all 2^40 "
                  "values, operating_pc all 2^32 values: decided for every value",
        "outside": "on-chip I/O register addresses (documented TODO in the property); areas 3-5 with DRAM select > 1 "
                   "(excluded by the property); addresses >= 2^24; counts > 5",
        "assumptions": ["bus-controller registers are poked directly into Bus::io_registrs1 (no Bus::write side effects)",
                        "reference cost table transcribed from the property statement / H8/3069F bus controller chapter"],
    },
    "C20": {
        "functions": ["every implemented instruction form's handler (same harness bodies as C01-C06/C08 in cycle-mix mode)"],
        "bounds": "one instruction per harness, all operand values symbolic; the ghost cost function logs (kind,count,address) and returns arbitrary costs; decided: the logged multiset equals the manual's "
                  "advanced-mode row with each entry in the cost class (area / on-chip RAM / I/O block) of the architectural address, and the instruction returns exactly the sum of the returned costs",
        "outside": "TRAPA #0 (no manual row); operands in I/O register space",
        "assumptions": COMMON_INSTR + ["cycle table transcribed from the H8/300H programming manual (advanced mode)"],
    },
}

INFO["C11"] = {
    "not_applicable": True,
    "na_reason": "elf::load (nom parser combinators + Vec/String + copies into the 2 MiB DRAM slice) is outside what CBMC can encode here: with read_elf stubbed and a "
                 "fully CONCRETE 516-byte layout (only segment bytes, GOT values and the argument string symbolic) symbolic execution alone was still running after 50+ minutes "
                 "and 10 GB (harness harness/c11.rs kept for the record); symbolic layouts additionally need symbolic-index DRAM writes, which exhaust memory (see C09). "
                 "No other technique is substituted.",
}
INFO["C12"] = {
    "not_applicable": True,
    "na_reason": "same code as C11 (elf::load): not encodable within reach - >50 min symbolic execution for one concrete-layout skeleton; the environment layout arithmetic is not "
                 "separable from the parser without rewriting the repository",
}

INFO["C18"] = {
    "not_applicable": True,
    "na_reason": "first sentence: the line handling is the body of Cpu::run's polling loop (Vec<String>, str::split, from_str_radix, string matches); with fetch/exec/clock scripted by "
                 "stubs CBMC did not get through it - symbolic line texts: 35 min in symbolic execution, no result; concrete texts with a symbolic partition of 3 lines into 3 polls: out of "
                 "memory at 20 GB; 2 lines / 2 polls: 30 min timeout (harness c13::socket_lines kept for the record). Second sentence (outgoing framing, receive-side splitting): code inside "
                 "thread closures over a TcpStream, which Kani/CBMC cannot execute. No other technique is substituted.",
}

NOTES = (
    "All checks are solver-based (Kani/CBMC on the real source, regenerated from /repo on every run). "
    "Exit 2 means the machinery was inconclusive (timeout, memory, vacuity, non-reproducing counterexample) and is never a pass. "
    "Known genuine defects that are not repaired are listed in /verif/known_findings.json. "
    "Partly claimed: C13 without its `sync:` clause and without whole-program runs (4 loop iterations of the real Cpu::run with scripted instructions); "
    "C05/C06 nesting deeper than one call/exception and C10 queues longer than 3 follow by induction from single-step claims that hold from arbitrary pre-states "
    "(an argument on paper, not a solver run); C02 DIVXU.W only for divisors < 16 (quick) / < 256 (thorough); C09 writes only at an enumerated boundary set "
    "(symbolic write addresses bit-blast the 2 MiB DRAM array); C14 write() lengths <= 4 (8 in thorough); C15 does not cover control-channel lines (C18's code). "
    "Quick tiers stay below 900 s each; C20's quick tier holds 140 of its 254 form harnesses (all in thorough). "
    "33 independently seeded changes (seeded/) and the revert of each fix: commit (seeded/REVERTED_FIXES.md) are caught."
)
