"""Per-property description of what the harnesses encode, their bounds and assumptions (goes into the evidence)."""

INFO = {
    "C19": {
        "functions": ["Cpu::calc_state_with_addr", "Cpu::calc_state", "Cpu::get_wait_state", "Bus::get_area_index",
                      "Bus::check_dram_area", "Bus::read (real, five constant register addresses)"],
        "bounds": "no loop; kind in 6 kinds, count 1..=5, target address all 2^24 values, ABWCR/ASTCR/WCRH/WCRL/DRCRA all 2^40 "
                  "values, operating_pc all 2^32 values: decided for every value",
        "outside": "on-chip I/O register addresses (documented TODO in the property); areas 3-5 with DRAM select > 1 "
                   "(excluded by the property); addresses >= 2^24; counts > 5",
        "assumptions": ["bus-controller registers are poked directly into Bus::io_registrs1 (no Bus::write side effects)",
                        "reference cost table transcribed from the property statement / H8/3069F bus controller chapter"],
    },
}

NOTES = (
    "All checks are solver-based (Kani/CBMC on the real source, regenerated from /repo on every run). "
    "Exit 2 means the machinery was inconclusive (timeout, memory, vacuity, non-reproducing counterexample) and is never a pass. "
    "Known genuine defects that are not repaired are listed in /verif/known_findings.json."
)
