"""Per-property description of what the harnesses encode, their bounds and assumptions (goes into the evidence
and into MANIFEST.json)."""

COMMON_INSTR = [
    "one instruction = real Cpu::fetch + real Cpu::exec (through the guarded hook Cpu::vh_step), PC concrete per harness "
    "(on-chip RAM H'FFCF20 in quick, additionally DRAM H'416900 in thorough)",
    "Bus::read/Bus::write replaced by the footprint memory (harness/mem.rs) implementing the bus contract proved in C09; "
    "any access outside the declared operand windows fails the `mem` aspect",
    "Cpu::calc_state_with_addr replaced by a logging stub returning arbitrary costs < 40 (the cost function itself is C19)",
    "instruction handlers that are not on the path of the form under test are replaced by ghosts (a ghost hit fails `route`)",
    "anyhow replaced by an opaque-error model crate; std::fmt::format returns an empty string (message texts are outside every claim)",
    "operand windows pairwise disjoint and disjoint from the instruction's own bytes (self-modifying / self-overlapping operands outside the claim)",
]

INFO = {
    "C01": {
        "functions": ["Cpu::fetch", "Cpu::exec", "Cpu::mov_b/mov_w/mov_l and every sub-handler", "read/write_{rn,ern,disp16,disp24,inc_ern,dec_ern,abs8,abs16,abs24}_{b,w,l}"],
        "bounds": "one instruction per harness, no loop; all register fields, all 8 register contents (2^256), all data values, all 256 CCR values, "
                  "every effective address in RAM/DRAM/vector area with arbitrary upper byte of the address register, all displacement / absolute address bits",
        "outside": "operands in I/O register space; operands overlapping the instruction bytes; data register = address register in @ERn+/@-ERn forms (the property's own exclusions)",
        "assumptions": COMMON_INSTR + ["encodings restricted to the manual's valid MOV encodings (reserved bits as printed)"],
    },
    "C02": {
        "functions": ["Cpu::exec", "add_b/w/l(_imm,_rn)", "sub_b/w/l", "cmp_*", "addx_*", "neg_*", "inc_*", "dec_*", "adds*", "subs*", "mulxu_*", "divxu_*", "read/write_rn_*"],
        "bounds": "one instruction per harness; both operands at full width (ADD.L/SUB.L/CMP.L over all 2^64 operand pairs), carry-in, all register fields, all CCR values; "
                  "MULXU.W 16x16 at full width; DIVXU.B at full width; DIVXU.W with divisor < 16 (quick) / < 256 (thorough); DIVXU under divisor != 0 and quotient fits",
        "outside": "DIVXU.W with a divisor >= 256 (CaDiCaL gave no answer within 30 minutes in three formulations); DIVXU with zero divisor / overflowing quotient (excluded by the property)",
        "assumptions": COMMON_INSTR + ["DIVXU result checked through the Euclidean relation q*d+r = a, r < d on the emulator's output (unique solution)"],
    },
    "C03": {
        "functions": ["Cpu::exec", "and_/or_/xor_{b,w,l}_{imm,rn}", "not_*", "extu_*", "shal/shar/shll/shlr/rotl/rotr/rotxl/rotxr _{b,w,l}"],
        "bounds": "one instruction per harness; all operand values at full width (32-bit forms over all 2^32 / 2^64 values), all register fields, all CCR values",
        "outside": "nothing inside one instruction",
        "assumptions": COMMON_INSTR,
    },
    "C04": {
        "functions": ["Cpu::exec", "bset/bclr/bnot/btst/bst/bist/bld/bild/band/biand/bor/bior/bxor/bixor x {rn, ern, abs}"],
        "bounds": "one instruction per harness; operand byte (256), bit number (3-bit immediate or all 256 values of the bit-number register), C, all register fields, "
                  "@ERd over every accessible address with arbitrary upper register byte, @aa:8 over the whole page",
        "outside": "operands at port DDR/DR and timer registers (H'FFFF60-9F) as the property says",
        "assumptions": COMMON_INSTR,
    },
    "C05": {
        "functions": ["Cpu::exec", "bcc + 32 condition handlers", "pc_disp8/pc_disp16", "jmp_*", "bsr_*", "jsr_*", "rts", "write_dec_ern_l/read_inc_ern_l", "Cpu::fetch (symbolic PC lemma)"],
        "bounds": "one instruction per harness (two for call->RTS round trips); condition number, all CCR values, every even displacement, every target register value, "
                  "SP anywhere in RAM/DRAM/vector area with arbitrary upper byte; pc_disp8/16 and fetch with a symbolic PC (position independence)",
        "outside": "call/return nesting deeper than one level is an induction over the single-step results (each holds from an arbitrary pre-state), not a solver run; "
                   "branch targets that leave the 24-bit space; JSR @ER7",
        "assumptions": COMMON_INSTR,
    },
    "C06": {
        "functions": ["Cpu::exec", "trapa", "rte", "Cpu::interrupt", "write_dec_ern_l/read_inc_ern_l", "read_abs24_l"],
        "bounds": "TRAPA #1-#3, interrupt vectors 1..=63, RTE; all CCR values, all vector contents (non-zero top byte included), SP anywhere in plain memory; "
                  "entry->RTE round trips (two steps)",
        "outside": "nesting deeper than one entry (induction over the single-step results); vectors >= 64",
        "assumptions": COMMON_INSTR + ["CCR after entry may have UI set or not (the property allows both)"],
    },
    "C07": {
        "functions": ["Cpu::exec (whole decoder)", "handlers the decoder routes the unimplemented encodings to (mov_l.rs, cmp_l.rs, stc.rs, mov_b.rs) kept real"],
        "bounds": "every encoding of NOP, SLEEP, LDC (#imm, Rs, six .W memory forms), ANDC/ORC/XORC, SUBX, DAA, DAS, EXTS, MULXS/DIVXS, EEPMOV, MOVFPE/MOVTPE with all "
                  "remaining opcode bits, all following words, all registers and all memory contents symbolic: execution must end in Err; implemented encodings are decided "
                  "form by form in C01-C06/C08 (aspects route, pc, outcome); 25 representatives covering every multi-word encoding family (Bcc d:8/d:16, JMP, BSR, JSR, RTS, TRAPA, MOV "
                  "#imm / @aa:16 / @aa:24 / @(d:16) / @(d:24), ALU #imm word and long, 01F0-prefixed logic, bit operations on memory, STC.W) are re-decided under C07 itself",
        "outside": "bit patterns that are not H8/300H instructions at all (the property does not constrain them)",
        "assumptions": COMMON_INSTR + ["memory: every mapped read returns an arbitrary byte"],
    },
    "C08": {
        "functions": ["get_addr_ern", "get_addr_disp16", "get_addr_disp24", "get_addr_abs8", "get_addr_abs16", "stc_w_* / stc_abs16 / stc_abs24",
                      "all MOV memory forms, bit-op @ERd/@aa:8 representatives, JMP/JSR @@aa:8, BSR, RTS, RTE, TRAPA (footprint `mem` and `regs` aspects)"],
        "bounds": "pure helpers: every base (2^32), displacement (2^16 / 2^24) and aa value; instruction level: one instruction, address register fully symbolic including the upper byte",
        "outside": "STC's data layout (not part of any property)",
        "assumptions": COMMON_INSTR,
    },
    "C09": {
        "functions": ["Bus::read", "Bus::write (real arrays)", "Cpu::read_abs24_{b,w,l}", "Cpu::write_abs24_{b,w,l}"],
        "bounds": "read classification: every 32-bit address; writes at an enumerated boundary set of 48 concrete addresses (both ends +-1 of every region, interior points, "
                  "addresses >= 2^24 that would alias) with symbolic values in two rounds, followed by ONE probe read at a fully symbolic 32-bit address "
                  "(for the DRAM group the probe is an enumerated set of 64 concrete addresses); 16/32-bit composition at the same boundary set",
        "outside": "SYMBOLIC WRITE ADDRESSES INSIDE DRAM (a symbolic-index store into the 2 MiB DRAM array is a byte-update over two million elements: out of memory, measured) - DRAM writes are "
                   "decided at the enumerated boundary set only; symbolic write addresses everywhere else (two writes + symbolic probe on the real RAM / vector / I/O arrays, harness "
                   "c09_sym_write_probe_nodram, 23 min) are in the thorough tier only; port DDR/DR registers (C16)",
        "assumptions": ["no stub at all on the bus", "fresh bus from Cpu::new() (all zero) plus the harness's own writes"],
    },
    "C10": {
        "functions": ["Cpu::try_interrupt", "Cpu::interrupt", "InterruptController::request_interrupt", "VecDeque<u8> push_back/pop_front"],
        "bounds": "one boundary step from a pending queue of length 0,1,2,3 (one harness each) with arbitrary vectors 1..=63, arbitrary CCR, PC, SP; FIFO append of 5 requests",
        "outside": "queues longer than 3 (induction over boundary steps from the arbitrary-queue pre-state); 'only at instruction boundaries' is the call order checked in C13",
        "assumptions": ["footprint memory as in C01-C06"],
    },
    "C13": {
        "functions": ["Cpu::run (real)", "Cpu::init_registers", "Cpu::print_er"],
        "bounds": "4 loop iterations; each scripted instruction outcome (Ok/Err), charged states (0..=85 and 0..=255) and next PC symbolic; exit address, start address, initial state sum, host clock values symbolic",
        "outside": "the `sync:` message clause (needs >= 2615 iterations of a loop whose counter is a local variable); whole programs beyond 4 instructions; wall-clock pacing (sleep branch needs >= 27 iterations)",
        "assumptions": ["Cpu::fetch, Cpu::exec, Cpu::try_interrupt, ModuleManager::update_modules, Cpu::send_message replaced by scripted/logging stubs",
                        "Instant::now / Instant::elapsed / SpinSleeper::sleep / SpinSleeper::default replaced by stubs returning arbitrary values (determinism = no assertion mentions them)"],
    },
    "C14": {
        "functions": ["Cpu::trapa", "Cpu::trapa_emulate_mes2", "read/write_abs24_l", "read_abs24_b", "String::from_utf8"],
        "bounds": "write: length 0..=4 bytes (unwind 18), every valid UTF-8 content of that length, argument block and buffer anywhere in plain memory; set_handler: every 32-bit vector number, 24-bit handler address; any other call number",
        "outside": "lengths > 4 (the copy loop is uniform); the console print! (not observable); the text of the `stdout:` line (format stubbed: the string handed to send_stdout_message is compared)",
        "assumptions": COMMON_INSTR + ["Cpu::send_stdout_message replaced by a recording stub under Kani (natively a channel-backed socket captures the real message)", "ER1 and the buffer address below 2^24"],
    },
    "C15": {
        "functions": ["Cpu::fetch", "Cpu::exec", "every instruction handler (one harness per source file under src/cpu/instruction)", "Cpu::interrupt", "addressing-mode helpers",
                      "Timer8_0::update_tcr / update_timer8_0 via Bus::write(H'FFFF80) and ModuleManager::update_modules"],
        "bounds": "one instruction with ALL opcode bits, registers, CCR and memory bytes symbolic and no operand assumption; decided = no failed Kani check (panic, unwrap, arithmetic/shift overflow, "
                  "index, division) in the emulator's source; PC placements: RAM, DRAM start/end, vector area; TRAPA write length <= 4; "
                  "peripheral side: any two bytes written to 8TCR0 through the real Bus::write (unimplemented clock selects 4-7 included) each followed by a peripheral update of <= 16 states with arbitrary timer registers",
        "outside": "control-channel lines (C18); run()'s own arithmetic is covered by C13's harness; optimized-build verdict is derived (release removes only overflow aborts) and confirmed by native replay in both profiles",
        "assumptions": COMMON_INSTR[1:],
    },
    "C16": {
        "functions": ["Bus::on_write_ddr", "Bus::on_write_dr", "Bus::write_port", "Bus::write / Bus::read (real, concrete port addresses)"],
        "bounds": "one operation from an arbitrary (DDR, latch, pin) state on a symbolic port 1..=11 with a second symbolic port untouched; histories of 3 operations from reset on ports 1 and 11 (6 in thorough) through the real Bus::write",
        "outside": "histories longer than 3 (covered by the single-operation step from an arbitrary state)",
        "assumptions": ["Bus::send_io_port_value replaced by a recording stub under Kani (natively the real mpsc message is parsed)"],
    },
    "C17": {
        "functions": ["Timer8_0::update_timer8_0", "Timer8_0::update_tcr", "ModuleManager::write_registers/update_modules", "Bus::write (TCR0 address)"],
        "bounds": "one update with charge 1..=64 (quick) / 1..=255 (thorough) from an arbitrary TCR, TCNT, TCORA, TCORB, TCSR and residual < divisor; unwind 42 (<= 33 ticks); TCR rewrite for all old/new values and two consecutive rewrites (old -> mid -> new, e.g. stop then restart) from every running state; partition lemma for all residuals and charges",
        "outside": "external / cascaded clock selects 4-7; simultaneous compare matches with a clear source (the property's exclusions); CPU writes to TCNT/TCORx/TCSR are plain stores (C09)",
        "assumptions": ["timer residual set through the guarded accessor", "registers poked directly into Bus::io_registrs2"],
    },
    "C19": {
        "functions": ["Cpu::calc_state_with_addr", "Cpu::calc_state", "Cpu::get_wait_state", "Bus::get_area_index",
                      "Bus::check_dram_area", "Bus::read (real, five constant register addresses)"],
        "bounds": "no loop; kind in 6 kinds, count 1..=5, target address all 2^24 values, ABWCR/ASTCR/WCRH/WCRL/DRCRA all 2^40 "
                  "values, operating_pc all 2^32 values: decided for every value",
        "outside": "on-chip I/O register addresses (documented TODO in the property); areas 3-5 with DRAM select > 1 "
                   "(excluded by the property); addresses >= 2^24; counts > 5",
        "assumptions": ["bus-controller registers are poked directly into Bus::io_registrs1 (no Bus::write side effects)",
                        "reference cost table transcribed from the property statement / H8/3069F bus controller chapter"],
    },
    "C20": {
        "functions": ["every implemented instruction form's handler (same harness bodies as C01-C06/C08 in cycle-mix mode)"],
        "bounds": "one instruction per harness, all operand values symbolic; the ghost cost function logs (kind,count,address) and returns arbitrary costs; decided: the logged multiset equals the manual's "
                  "advanced-mode row with each entry in the cost class (area / on-chip RAM / I/O block) of the architectural address, and the instruction returns exactly the sum of the returned costs",
        "outside": "TRAPA #0 (no manual row); operands in I/O register space",
        "assumptions": COMMON_INSTR + ["cycle table transcribed from the H8/300H programming manual (advanced mode)"],
    },
}

ELF_COMMON = [
    "elf::read_elf (file I/O) replaced by a stub returning the harness-built image; the image reaches `load` as a Vec<u8> built without memcpy so that CBMC's symbolic execution keeps "
    "the header bytes as constants (CBMC option --max-field-sensitivity-array-size 1024)",
    "string_table::parse_string_table_entry replaced by a contract stub (name = run of graphic ASCII bytes, accepted iff followed by NUL) that builds the String without memcpy; "
    "the real parser's own harness (c11p::string_entry) exhausts memory on its symbolic-length to_vec() and is NOT part of the claim - this stub is therefore a trusted assumption",
    "under Kani `bus.dram` is replaced by its first H'18000 bytes (everything the skeleton touches ends below H'418000; an access beyond would fail Kani's index check); natively the real 2 MiB array is used",
    "anyhow / fmt::format models as everywhere",
]
INFO["C11"] = {
    "functions": ["elf::load (real)", "parse_elf_header32", "parse_program_header_table32", "parse_section_header_table32 (real nom parsers, inside load and on their own)"],
    "bounds": "BOUNDED CLAIM on enumerated layouts - (a) the real elf::load on three concrete 520-byte ELF32-BE layout skeletons ([LOAD, NOTE, LOAD] with a gap after the first segment, "
              "[LOAD, LOAD, NOTE], and [LOAD, NOTE, LOAD] with the second segment starting exactly where the first segment and .got end; six "
              "shuffled section headers, .got of two entries at the end of the first segment, .symtab, .stack) with ALL segment content bytes (24), both GOT entry values (all 2^64 "
              "pairs, sums wrapping modulo 2^32 included) and the ___exit value symbolic: segment bytes at base + p_vaddr, bss / gap / neighbouring bytes zero (enumerated probes in every harness; in c11_load_zero_fill_symbolic_probe_v0 additionally ONE probe at a SYMBOLIC "
              "offset of the modelled DRAM prefix H'400000-H'417FFF: every byte that is neither segment file content nor part of the argument block the loader writes reads zero), GOT "
              "entries relocated exactly once (big-endian, modulo 2^32), on-chip RAM / vector area / I/O registers untouched (enumerated probes); (b) the three record parsers on their own "
              "over fully symbolic bytes: every field of the ELF header (52 bytes), of two program headers (64 bytes) and of two section headers (80 bytes) equals the big-endian value at "
              "the ELF32 specification's offset, for all byte values",
    "outside": "segment offsets / addresses / sizes, the number of segments and sections, the position and size of .got other than the three skeletons (a symbolic layout makes every DRAM "
               "store a symbolic-index store: out of reach, see C09); .got with more than two entries; zero-fill and outside-DRAM are probed at enumerated addresses only; deallocation-"
               "precondition failures inside Kani's own C library model (kani_lib.c:__rust_dealloc) are not counted for these harnesses (config-dependent CBMC artefact, DESIGN.md section 3)",
    "assumptions": ELF_COMMON,
    "level_text": "Bounded model checking (Kani/CBMC) of the real elf::load on two concrete layout skeletons with symbolic contents, plus the real nom record parsers on fully symbolic bytes. "
                  "The layout dimension of the property (arbitrary offsets/sizes/section order) is NOT covered beyond the two skeletons; within a skeleton the SAT verdict covers every content byte and GOT value.",
    "level_note": "BOUNDED to three layout skeletons. Trusted: Kani, CBMC, CaDiCaL, the read_elf stub, the string-table contract stub, the reduced DRAM array under Kani, the anyhow model.",
    "technique": "Kani/CBMC bounded model checking of elf::load on concrete layout skeletons with symbolic contents + of the nom record parsers on symbolic bytes (SAT)",
}
INFO["C12"] = {
    "functions": ["elf::load (real): entry, .got pointer, .stack arm (SP, TCB gap, argv table and strings), .symtab arm (___exit)", "parse_symbol_table32 (real, on its own)"],
    "bounds": "BOUNDED CLAIM on enumerated layouts and argument strings - the real elf::load on the C11 skeletons: ER2 = load base, ER5 = base + .got address, exit "
              "address = ___exit value + base for every ___exit value that does not wrap, with ___exit at symbol index 0, 1 or 2; .stack size and image end as call-site constants covering the residues "
              "(image end mod 4, stack size mod 4) = (1,3), (2,2) in quick and (3,1), (1,1), (0,0) in thorough, program headers [LOAD, NOTE, LOAD] and [LOAD, LOAD, NOTE] (a non-load "
              "header last), argument strings \"\", \"a \\tb\", \" ab\" as call-site constants: ER7 = align4(image end + stack size) - 8 with image end = highest PT_LOAD extent, ER0 = argc, ER1 = argv "
              "= align4(stack end + 88), argc pointers + null, \"prog.elf\" and the words NUL-terminated and byte-exact, regions ordered and inside DRAM; parse_symbol_table32 on 32 "
              "fully symbolic bytes (all six fields of two entries)",
    "outside": "every layout / stack size / argument string other than the enumerated ones: the addresses of the argument block depend on them, and a symbolic address is a symbolic-index "
               "store into DRAM (out of reach); the solver's universal quantification here covers only segment bytes, GOT values and the ___exit value - the layout arithmetic is decided at "
               "the enumerated points only; symbol tables with more than 3 symbols; run() setting PC from ER2 is decided in C13's harness",
    "assumptions": ELF_COMMON,
    "level_text": "Bounded model checking (Kani/CBMC) of the real elf::load on concrete skeletons. The environment layout arithmetic is decided only at enumerated (image end, stack size, "
                  "argument string) points chosen to cover the alignment residues and a non-load last program header; contents and the ___exit value are symbolic.",
    "level_note": "BOUNDED to enumerated layouts and argument strings (stated in the evidence). Trusted: Kani, CBMC, CaDiCaL, the read_elf stub, the string-table contract stub, the reduced DRAM array under Kani.",
    "technique": "Kani/CBMC bounded model checking of elf::load on concrete layout skeletons / argument strings with symbolic contents (SAT); symbol-table parser on symbolic bytes",
}

INFO["C18"] = {
    "functions": ["Cpu::parse_u8", "Cpu::parse_ioport", "u32::from_str_radix / u8::from_str_radix (std, compiled code)"],
    "bounds": "PARTIAL CLAIM - decided: the effect of one `u8:<addr>:<value>` / `ioport:<port>:<value>` line after it has been split into fields: for every address text of 0..=9 "
              "ASCII bytes and every value / port text of 0..=3 ASCII bytes (all byte values < 0x80, symbolic length), with 2, 3 or 4 fields: exactly one Bus::write(addr, value) / "
              "Bus::write_port(port, value) with the hexadecimal values iff there are exactly three fields and both numbers are well-formed and in range; otherwise no effect at all "
              "(malformed lines are ignored, Ok is returned)",
    "outside": "NOT decided by any check (no solver encoding within reach, see DESIGN section 3 C18): exactly-once / in-order application of lines over arbitrary batching, the "
               "cmd:pause/start/stop lines, the split(':') itself and the dispatch on the first field (all inside Cpu::run's polling loop: one line in one batch exhausted 11 GB "
               "after 9 minutes of symbolic execution); the outgoing framing/escaping and the receive-side line splitting (thread closures over a TcpStream); non-ASCII field "
               "texts; a leading '+' (accepted by from_str_radix; the property is silent)",
    "assumptions": ["Bus::write and Bus::write_port replaced by recording stubs (their own semantics are C09 / C16)", "field texts are ASCII and do not start with '+' or '-'"],
    "level_text": "Bounded model checking (Kani/CBMC) of the real field parsers parse_u8 / parse_ioport over symbolic field texts. Partial: only the per-line effect of u8:/ioport: lines "
                  "is decided; ordering/batching, cmd: lines and the outgoing framing are outside what CBMC can encode here (stated in the evidence).",
    "level_note": "PARTIAL. Trusted: Kani MIR->goto translation, CBMC, CaDiCaL, the opaque anyhow model, recording stubs for Bus::write / Bus::write_port. Not decided: batching/order, "
                  "cmd: lines, split(':') and dispatch inside Cpu::run, outgoing escaping (socket threads). A change confined to those parts is NOT detected by this check.",
    "technique": "Kani/CBMC bounded model checking of parse_u8 / parse_ioport on symbolic ASCII field texts (SAT); partial coverage of the property",
}

NOTES = (
    "All checks are solver-based (Kani/CBMC on the real source, regenerated from /repo on every run). "
    "Exit 2 means the machinery was inconclusive (timeout, memory, vacuity, non-reproducing counterexample) and is never a pass. "
    "Known genuine defects that are not repaired are listed in /verif/known_findings.json. "
    "Partly claimed (every restriction is repeated in the property's level_note and evidence): "
    "C11/C12 only on two concrete ELF layout skeletons and enumerated stack sizes / argument strings with symbolic contents (symbolic layouts need symbolic-index DRAM stores); "
    "C18 only the per-line effect of u8:/ioport: lines (parse_u8 / parse_ioport) - batching/order, cmd: lines, the split/dispatch inside Cpu::run and the outgoing framing are not decided by any check; "
    "C13 without its `sync:` clause and without whole-program runs (4 loop iterations of the real Cpu::run with scripted instructions); "
    "C05/C06 nesting deeper than one call/exception and C10 queues longer than 3 follow by induction from single-step claims that hold from arbitrary pre-states "
    "(an argument on paper, not a solver run); C02 DIVXU.W only for divisors < 16 (quick) / < 256 (thorough); C09 writes at an enumerated boundary set in the quick tier "
    "(symbolic write addresses outside DRAM in the thorough tier; symbolic DRAM write addresses bit-blast the 2 MiB array); C14 write() lengths <= 4 (8 in thorough); "
    "C15 does not cover control-channel lines. "
    "Quick tiers stay below 900 s each; C20's quick tier holds 140 of its 254 form harnesses (all in thorough). "
    "58 independently seeded changes (seeded/, DESIGN.md section 6) were evaluated in six waves: 55 caught (about a dozen of them only after a miss or an inconclusive first run was analysed and "
    "the machinery strengthened - each recorded in the seed's `history`), 3 missed for stated reasons (C13c sync clause, C14b length > 256, C18a outgoing escaping); "
    "the revert of each fix: commit is caught (seeded/REVERTED_FIXES.md)."
)
