#!/bin/bash
# runs every claimed property's check in the given tier, one after the other (development convenience)
cd /verif
tier=${1:-quick}
for p in C19 C18 C16 C10 C17 C13 C05 C06 C07 C09 C03 C02 C04 C01 C08 C14 C11 C12 C15 C20; do
  s=$(date +%s)
  ./check $p --tier $tier > /tmp/official_${tier}_$p.out 2>&1
  echo "$p exit=$? wall=$(( $(date +%s) - s ))s $(grep -c '^KNOWN-FINDING' /tmp/official_${tier}_$p.out) known"
done
