#!/bin/bash
export SEED_OUT=/verif
export VERIF_JOBS=4
run() { python3 vlib/seedtest.py /tmp/seed_$1 $2 $3 --isolated ${4:+--only $4} > /tmp/seedrun_$2.out 2>&1; tail -1 /tmp/seedrun_$2.out; }
run C14c C14c C14 sys_other
