"""Regenerates the Kani harness crate from /repo's current working tree.

kani/src/ is rebuilt on every run:
  * one symlink per entry of /repo/src (files and directories) except main.rs,
    so the compiled source *is* the repository's working tree;
  * lib.rs with the same `mod` list as /repo/src/main.rs plus `mod harness;`
  * harness/ -> /verif/harness (tracked harness + reference-model sources)
  * harness_gen.rs: ghost handlers, #[kani::proof] wrappers (stub lists), known-finding constants
"""
import json
import os
import re
import shutil

REPO = os.environ.get("VERIF_REPO", "/repo")
VERIF = os.path.dirname(os.path.dirname(os.path.abspath(__file__)))
KANI = os.path.join(VERIF, "kani")
SRC = os.path.join(KANI, "src")

HANDLER_RE = re.compile(
    r"^\s*(?:pub(?:\([^)]*\))?\s+)?fn\s+(\w+)\s*\(\s*&mut\s+self\s*((?:,\s*_?\w+\s*:\s*u16\s*)*)\)\s*->\s*Result<u8>",
    re.M,
)


def strip_tests(text):
    """Drop everything from the first `#[cfg(test)]` on (the repo keeps test modules last)."""
    i = text.find("#[cfg(test)]\nmod tests")
    return text if i < 0 else text[:i]


def parse_handlers(repo=REPO):
    """All instruction handlers: fn name(&mut self, [u16...]) -> Result<u8> in src/cpu/instruction/*.rs."""
    out = {}
    d = os.path.join(repo, "src/cpu/instruction")
    for fn in sorted(os.listdir(d)):
        if not fn.endswith(".rs"):
            continue
        text = strip_tests(open(os.path.join(d, fn)).read())
        for m in HANDLER_RE.finditer(text):
            name = m.group(1)
            arity = m.group(2).count(":")
            out[name] = {"arity": arity, "file": fn}
    return out


def parse_mods(repo=REPO):
    text = open(os.path.join(repo, "src/main.rs")).read()
    return re.findall(r"^mod\s+(\w+);", text, re.M)


def syntactic_memory_check(repo=REPO):
    """Instruction / addressing-mode code must reach memory only through Bus::read / Bus::write."""
    bad = []
    pat = re.compile(r"bus\s*\.\s*(memory|dram|io_registrs1|io_registrs2|exception_handling_vector|io_port_in)\b")
    for sub in ("src/cpu/instruction", "src/cpu/addressing_mode"):
        d = os.path.join(repo, sub)
        for fn in sorted(os.listdir(d)):
            if fn.endswith(".rs"):
                text = strip_tests(open(os.path.join(d, fn)).read())
                for m in pat.finditer(text):
                    bad.append(f"{sub}/{fn}: {m.group(0)}")
    for fn in ("src/cpu/interrupt_controller.rs",):
        text = strip_tests(open(os.path.join(repo, fn)).read())
        for m in pat.finditer(text):
            bad.append(f"{fn}: {m.group(0)}")
    return bad


def load_known_findings():
    p = os.path.join(VERIF, "known_findings.json")
    if not os.path.exists(p):
        return []
    return json.load(open(p)).get("findings", [])


def harness_sources():
    d = os.path.join(VERIF, "harness")
    return [os.path.join(d, f) for f in sorted(os.listdir(d)) if f.endswith(".rs")]


def scan_kf_ids():
    ids = set()
    for p in harness_sources():
        ids.update(re.findall(r"kf!\(\s*(KF_\w+)", open(p).read()))
    return sorted(ids)


def ghost_name(h):
    return "ghost_" + h


def emit_ghosts(handlers):
    lines = ["// ---- ghost handlers (one per instruction handler parsed from /repo) ----"]
    lines.append("pub const HANDLER_NAMES: &[&str] = &[")
    names = sorted(handlers)
    for n in names:
        lines.append(f'    "{n}",')
    lines.append("];")
    for i, n in enumerate(names):
        ar = handlers[n]["arity"]
        args = "".join(f", a{k}: u16" for k in range(ar))
        a0 = "a0" if ar >= 1 else "0"
        a1 = "a1" if ar >= 2 else "0"
        lines.append(
            f"#[allow(dead_code)] pub fn {ghost_name(n)}(_c: &mut Cpu{args}) -> Result<u8> "
            f"{{ crate::harness::ghost::hit({i + 1}, {a0}, {a1}) }}"
        )
        lines.append(f"pub const H_{n.upper()}: u16 = {i + 1};")
    return "\n".join(lines)


CHUNK = 8


def chunk_of(specs):
    """Harness name -> chunk module name.  Each chunk is a feature-gated module so that one cargo-kani
    invocation only parses the stub attribute lists (about 230 per harness) of a handful of harnesses."""
    import zlib

    nbuckets = max(1, len(specs) // CHUNK)
    nbuckets = 1 << (nbuckets.bit_length())  # power of two: stable while the registry grows a little
    return {s["name"]: f"gen_k{zlib.crc32(s['name'].encode()) % nbuckets:03d}" for s in specs}


def emit_proofs(handlers, specs):
    """specs: list of dict(name, body, keep, stubs, unwind)"""
    out = []
    names = sorted(handlers)
    for s in specs:
        attrs = ["#[cfg(kani)]", "#[kani::proof]"]
        if s.get("unwind"):
            attrs.append(f"#[kani::unwind({s['unwind']})]")
        pairs = []
        for orig, repl in s.get("stubs", []):
            pairs.append((orig, repl))
        if s.get("ghost_siblings", False):
            keep = set(s.get("keep", []))
            missing = keep - set(names)
            if missing:
                raise SystemExit(f"harness {s['name']}: kept handler(s) not found in /repo: {sorted(missing)}")
            for n in names:
                if n not in keep:
                    pairs.append((f"crate::cpu::Cpu::{n}", f"crate::harness_gen::{ghost_name(n)}"))
        for orig, repl in pairs:
            attrs.append(f"#[kanitool::stub({orig}, {repl})]")
        out.append("\n".join(attrs))
        call = s["body"].replace("$S", "&mut s")
        out.append(f"pub fn {s['name']}() {{ let mut s = crate::harness::src::KSrc; {call}; }}\n")
    return "\n".join(out)


def _write_if_changed(path, content):
    if os.path.exists(path) and not os.path.islink(path):
        if open(path).read() == content:
            return False
    elif os.path.islink(path):
        os.unlink(path)
    open(path, "w").write(content)
    return True


def _ensure_symlink(target, link):
    if os.path.islink(link):
        if os.readlink(link) == target:
            return
        os.unlink(link)
    elif os.path.isdir(link):
        shutil.rmtree(link)
    elif os.path.exists(link):
        os.unlink(link)
    os.symlink(target, link)


def emit_registry(specs):
    lines = ["pub fn run_body(name: &str, s: &mut crate::harness::src::RSrc) -> bool {", "    match name {"]
    for sp in specs:
        call = sp["body"].replace("$S", "&mut *s")
        lines.append(f'        "{sp["name"]}" => {{ {call}; true }}')
    lines.append("        _ => false,")
    lines.append("    }")
    lines.append("}")
    return "\n".join(lines)


def generate(specs, repo=REPO):
    """Idempotent: files are rewritten only when their content changes (keeps cargo fingerprints)."""
    handlers = parse_handlers(repo)
    os.makedirs(SRC, exist_ok=True)
    wanted = set()
    for e in sorted(os.listdir(os.path.join(repo, "src"))):
        if e == "main.rs":
            continue
        _ensure_symlink(os.path.join(repo, "src", e), os.path.join(SRC, e))
        wanted.add(e)
    _ensure_symlink(os.path.join(VERIF, "harness"), os.path.join(SRC, "harness"))
    wanted.update({"harness", "lib.rs", "harness_gen.rs", "replay_main.rs"})
    for e in os.listdir(SRC):
        if e not in wanted and not e.startswith("gen_k"):
            pth = os.path.join(SRC, e)
            if os.path.islink(pth) or os.path.isfile(pth):
                os.unlink(pth)
            else:
                shutil.rmtree(pth)
    _write_if_changed(os.path.join(SRC, "replay_main.rs"), open(os.path.join(VERIF, "harness", "replay_main.rs.in")).read())
    lock_dst = os.path.join(KANI, "Cargo.lock")
    if not os.path.exists(lock_dst):
        shutil.copy(os.path.join(repo, "Cargo.lock"), lock_dst)
    mods = parse_mods(repo)
    lib = ['#![recursion_limit = "2048"]',
           "#![allow(dead_code, unused_imports, unused_variables, unused_mut, unused_macros, unused_unsafe, static_mut_refs)]"]
    for m in mods:
        lib.append(f"pub mod {m};")
    lib.append("#[macro_use]\npub mod harness;")
    lib.append("pub mod harness_gen;")
    ch = chunk_of(specs)
    chunks = sorted(set(ch.values()))
    for c in chunks:
        lib.append(f'#[cfg(feature = "{c}")] pub mod {c};')
    _write_if_changed(os.path.join(SRC, "lib.rs"), "\n".join(lib) + "\n")

    listed_open = {f["id"] for f in load_known_findings() if f.get("status") == "open"}
    g = ["// GENERATED by vlib/gen.py from /repo's working tree -- do not edit",
         "#![allow(non_upper_case_globals)]",
         "use crate::cpu::Cpu;", "use crate::harness::*;", "use anyhow::Result;", ""]
    g.append("pub mod kfc {")
    for k in scan_kf_ids():
        g.append(f"    pub const {k}: bool = {'true' if k in listed_open else 'false'};")
    g.append("}")
    g.append(emit_ghosts(handlers))
    g.append("")
    g.append(emit_registry(specs))
    _write_if_changed(os.path.join(SRC, "harness_gen.rs"), "\n".join(g) + "\n")
    for c in chunks:
        sub = [sp for sp in specs if ch[sp["name"]] == c]
        body = ["// GENERATED by vlib/gen.py -- do not edit", "use crate::harness::*;", "", emit_proofs(handlers, sub)]
        _write_if_changed(os.path.join(SRC, c + ".rs"), "\n".join(body) + "\n")
    for e in os.listdir(SRC):
        if e.startswith("gen_k") and e[:-3] not in chunks:
            os.unlink(os.path.join(SRC, e))
    cargo = open(os.path.join(VERIF, "kani", "Cargo.toml.in")).read()
    cargo += "\n[features]\n" + "".join(f"{c} = []\n" for c in chunks)
    _write_if_changed(os.path.join(KANI, "Cargo.toml"), cargo)
    return handlers
