#!/bin/bash
# development-time: revert each `fix:` commit in the working tree (git revert --no-commit), run the check that
# is supposed to guard it, restore the tree.  Result lines go to seeded/REVERTED_FIXES.md.
cd /verif
OUT=seeded/REVERTED_FIXES.md
run() {
  c=$1; prop=$2; only=$3
  [ -z "$(git -C /repo status --porcelain)" ] || { echo "/repo dirty"; exit 3; }
  if ! git -C /repo revert --no-commit $c > /tmp/revert_$c.log 2>&1; then
    git -C /repo revert --abort 2>/dev/null; git -C /repo reset -q --hard HEAD
    echo "| $c | (revert conflicts with later commits) | - | - |" >> $OUT; return
  fi
  ./check $prop --only $only > /tmp/revert_$c.out 2>&1; rc=$?
  git -C /repo reset -q --hard HEAD
  n=$(grep -c "^VIOLATION" /tmp/revert_$c.out)
  h=$(grep "^VIOLATION" /tmp/revert_$c.out | sed 's/.*harness=\([^ ]*\).*/\1/' | sort -u | tr '\n' ' ')
  echo "| $c $(git -C /repo log --format=%s -1 $c | cut -c1-70) | ./check $prop --only $only | $rc | $n: $h |" >> $OUT
  tail -1 $OUT
}
run e8ed021 C15 c15_free_mov_w
run d0e8c75 C05 c05_jmp_ern
run 4bdc103 C05 c05_jmp_indirect
run 6794533 C15 c15_free_btst
run 39e6ab5 C04 c04_bst_ern_imm
run 8823b73 C07 c07_unimpl_das
run cbaf833 C10 q2
run 0044457 C15 c15_free_dispatch_vector
run 3e55385 C13 any_charge
run a579586 C08 c08_stc_w_ern
run 99668e9 C17 tcr
run 173e755 C20 c20_mov_l_incdec_store
run 403451a C20 c20_jmp_indirect
run 87cf054 C20 c20_bsr8
run 96b3f1f C20 c20_jsr_indirect
run 25d0737 C20 c20_trapa
run 73633ec C15 c15_free_bsr
run 588d1c0 C15 c15_free_trapa
