#!/bin/bash
cd /verif
run() { python3 vlib/seedtest.py /tmp/seed_$1 $2 $3 ${4:+--only $4} > /tmp/seedrun_$2.out 2>&1; tail -1 /tmp/seedrun_$2.out; }
run C14 C14-overread C14
run C01b C01b-movw-n-8000 C01 mov_w
run C02b C02b-decl2-v C02 dec_l
run C04b C04b-bld-abs-or C04 bld
run C05b C05b-ble16 C05 bcc
run C06b C06b-trapa-pc-unmasked C06
run C08b C08b-jsr-ind-align C08 indirect
run C17b C17b-ovf-on-clear C17
run C20b C20b-movw-d16-base C20 mov_w_disp16
