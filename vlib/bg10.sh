#!/bin/bash
# thorough-tier sanity of the second-session harnesses (results stay in the snapshot; not evidence)
./check C12 --tier thorough > /tmp/thorough_C12.out 2>&1; echo "C12 thorough exit $?"; tail -3 /tmp/thorough_C12.out | cut -c1-200
./check C09 --tier thorough --only sym_write > /tmp/thorough_C09sym.out 2>&1; echo "C09 sym exit $?"; tail -2 /tmp/thorough_C09sym.out | cut -c1-200
./check C17 --tier thorough --only tcr > /tmp/thorough_C17.out 2>&1; echo "C17 tcr exit $?"
