"""Harness registry: which Kani proof harnesses exist, for which property, with which stubs/bounds.

Every entry becomes one `#[kani::proof]` wrapper in the generated crate (vlib/gen.py) that calls the
generic harness body `body` (a Rust path under crate::harness) with the Kani value source.
"""

STUB_MEM = [
    ("crate::bus::Bus::read", "crate::harness::mem::bus_read_stub"),
    ("crate::bus::Bus::write", "crate::harness::mem::bus_write_stub"),
]
STUB_CALC = [("crate::cpu::Cpu::calc_state_with_addr", "crate::harness::ghost::ghost_calc_state_with_addr")]
STUB_FMT = [("std::fmt::format", "crate::harness::stubs::fmt_format")]
STUB_MES2 = [("crate::cpu::Cpu::trapa_emulate_mes2", "crate::harness::ghost::ghost_mes2")]
STUB_SEND = [("std::sync::mpsc::Sender::send", "crate::harness::stubs::mpsc_send")]

SPECS = []


def add(prop, name, body, *, stubs=(), keep=None, unwind=None, tier="quick", timeout=600, mem_gb=12, note="", native=True, cbmc_args=(), kf_witness=None, ignore_dealloc=False):
    st = list(STUB_FMT) + list(STUB_SEND)
    for s in stubs:
        st.extend(s)
    SPECS.append(
        dict(
            prop=prop,
            name=name,
            body=(body if "(" in body else body + "($S)"),
            stubs=st,
            ghost_siblings=keep is not None,
            keep=list(keep or []),
            unwind=unwind,
            tier=tier,
            timeout=timeout,
            mem_gb=mem_gb,
            note=note,
            native=native,
            cbmc_args=list(cbmc_args),
            kf_witness=kf_witness,
            ignore_dealloc=ignore_dealloc,
        )
    )


# ------------------------------------------------------------------ C19
add("C19", "c19_cost_matches_reference", "c19::cost_matches_reference")
add("C19", "c19_calc_state_uses_operating_pc", "c19::calc_state_uses_operating_pc")
add("C19", "c19_other_areas_do_not_matter", "c19::other_areas_do_not_matter")

# ------------------------------------------------------------------ instruction forms (C01-C06 semantics, C20 cycle mix)
INSTR_STUBS = (STUB_MEM, STUB_CALC)
FORMS = []  # (prop, form-name, call-template with {mode}, keep, extra kwargs)


def form(prop, fname, call, keep, **kw):
    FORMS.append((prop, fname, call, keep, kw))


SZN = {1: "b", 2: "w", 4: "l"}
# two-operand ALU
for op, opn, prop in (("ADD", "add", "C02"), ("SUB", "sub", "C02"), ("CMP", "cmp", "C02"), ("AND", "and", "C03"), ("OR", "or", "C03"), ("XOR", "xor", "C03")):
    for sz in (1, 2, 4):
        for imm in (True, False):
            if op == "SUB" and sz == 1 and imm:
                continue  # no SUB.B #imm in the H8/300H
            z = SZN[sz]
            k = "imm" if imm else "rn"
            if op == "CMP":
                keep = [f"cmp_{z}_{k}"]
            elif op == "SUB" and sz == 1:
                keep = ["sub_b"]
            elif op in ("ADD", "SUB"):
                keep = [f"{opn}_{z}", f"{opn}_{z}_{k}"]
            else:
                keep = [f"{opn}_{z}_{k}"]
            form(prop, f"{opn}_{z}_{k}", f"c02::alu2($S, {{mode}}, c02::{op}, {sz}, {'true' if imm else 'false'})", keep)
form("C02", "addx_imm", "c02::alu2($S, {mode}, c02::ADDX, 1, true)", ["addx_imm"])
form("C02", "addx_rn", "c02::alu2($S, {mode}, c02::ADDX, 1, false)", ["addx_rn"])

# one-operand
UN = [
    # prop, name, b0, hi, sz, sem, k, keep
    ("C02", "neg_b", 0x17, 0x8, 1, "NEG", 0), ("C02", "neg_w", 0x17, 0x9, 2, "NEG", 0), ("C02", "neg_l", 0x17, 0xB, 4, "NEG", 0),
    ("C03", "not_b", 0x17, 0x0, 1, "NOT", 0), ("C03", "not_w", 0x17, 0x1, 2, "NOT", 0), ("C03", "not_l", 0x17, 0x3, 4, "NOT", 0),
    ("C03", "extu_w", 0x17, 0x5, 2, "EXTU", 0), ("C03", "extu_l", 0x17, 0x7, 4, "EXTU", 0),
    ("C02", "inc_b", 0x0A, 0x0, 1, "INC", 1), ("C02", "inc_w_1", 0x0B, 0x5, 2, "INC", 1), ("C02", "inc_w_2", 0x0B, 0xD, 2, "INC", 2),
    ("C02", "inc_l_1", 0x0B, 0x7, 4, "INC", 1), ("C02", "inc_l_2", 0x0B, 0xF, 4, "INC", 2),
    ("C02", "dec_b", 0x1A, 0x0, 1, "DEC", 1), ("C02", "dec_w_1", 0x1B, 0x5, 2, "DEC", 1), ("C02", "dec_w_2", 0x1B, 0xD, 2, "DEC", 2),
    ("C02", "dec_l_1", 0x1B, 0x7, 4, "DEC", 1), ("C02", "dec_l_2", 0x1B, 0xF, 4, "DEC", 2),
    ("C02", "adds1", 0x0B, 0x0, 4, "ADDS", 1), ("C02", "adds2", 0x0B, 0x8, 4, "ADDS", 2), ("C02", "adds4", 0x0B, 0x9, 4, "ADDS", 4),
    ("C02", "subs1", 0x1B, 0x0, 4, "SUBS", 1), ("C02", "subs2", 0x1B, 0x8, 4, "SUBS", 2), ("C02", "subs4", 0x1B, 0x9, 4, "SUBS", 4),
]
for sem, b0, his in (("SHLL", 0x10, (0, 1, 3)), ("SHAL", 0x10, (8, 9, 0xB)), ("SHLR", 0x11, (0, 1, 3)), ("SHAR", 0x11, (8, 9, 0xB)),
                     ("ROTXL", 0x12, (0, 1, 3)), ("ROTL", 0x12, (8, 9, 0xB)), ("ROTXR", 0x13, (0, 1, 3)), ("ROTR", 0x13, (8, 9, 0xB))):
    for sz, hi in zip((1, 2, 4), his):
        UN.append(("C03", f"{sem.lower()}_{SZN[sz]}", b0, hi, sz, sem, 0))
for prop, nm, b0, hi, sz, sem, k in UN:
    form(prop, nm, f"c02::alu1($S, {{mode}}, {b0:#x}, {hi:#x}, {sz}, c02::{sem}, {k})", [nm])
form("C02", "mulxu_b", "c02::mulxu($S, {mode}, 1)", ["mulxu_b"])
form("C02", "mulxu_w", "c02::mulxu($S, {mode}, 2)", ["mulxu_w"], timeout=1800)
form("C02", "divxu_b", "c02::divxu($S, {mode}, 1, 8)", ["divxu_b"])
form("C02", "divxu_w_divisor4bit", "c02::divxu($S, {mode}, 2, 4)", ["divxu_w"], timeout=1800, note="bound: divisor < 16 (divisor < 256 takes 26 min: thorough tier)")
form("C02", "divxu_w_divisor8bit", "c02::divxu($S, {mode}, 2, 8)", ["divxu_w"], timeout=3000, tier="thorough", note="bound: divisor < 256")
# (DIVXU.W at full divisor width is not registered: no answer within 30 minutes in three formulations; a harness that
#  times out would make the thorough command exit 2.  Stated as outside the bound in the evidence.)


# MOV
MOV_AM = {"rn": "RN", "imm": "IMM", "ern": "ERN", "disp16": "D16", "disp24": "D24", "incdec": "INCDEC", "abs8": "A8", "abs16": "A16", "abs24": "A24"}
for sz in (1, 2, 4):
    z = SZN[sz]
    for am in ("rn", "imm", "ern", "disp16", "disp24", "incdec", "abs8", "abs16", "abs24"):
        if am == "abs8" and sz != 1:
            continue
        sub = {"incdec": f"mov_{z}_inc_or_dec"}.get(am, f"mov_{z}_{am}")
        if am == "disp24" and sz != 4:
            keep = [sub]
        elif sz == 1 and am in ("abs16", "abs24"):
            keep = ["mov_b", "mov_b_abs_16_or_24", sub]
        else:
            keep = [f"mov_{z}", sub]
        dirs = ((False, "load"),) if am in ("rn", "imm") else ((False, "load"), (True, "store"))
        for store, dn in dirs:
            nm = f"mov_{z}_{am}" + ("" if am in ("rn", "imm") else "_" + dn)
            for pcn, pcv, tier in (("", "util::PC_RAM", "quick"), ("_dram", "util::PC_DRAM", "thorough")):
                form("C01", nm + pcn, f"c01::mov($S, {{mode}}, {sz}, c01::{MOV_AM[am]}, {'true' if store else 'false'}, {pcv})", keep, tier=tier)


# bit manipulation (C04)
BITOPS = [("BSET", "bset", True), ("BCLR", "bclr", True), ("BNOT", "bnot", True), ("BTST", "btst", True), ("BST", "bst", False),
          ("BIST", "bist", False), ("BLD", "bld", False), ("BILD", "bild", False), ("BAND", "band", False), ("BIAND", "biand", False),
          ("BOR", "bor", False), ("BIOR", "bior", False), ("BXOR", "bxor", False), ("BIXOR", "bixor", False)]
for OP, opn, has_rn in BITOPS:
    for LOC, locn in (("REG", "rn"), ("ERN", "ern"), ("ABS8", "abs")):
        for from_rn in ((False, True) if has_rn else (False,)):
            if opn == "btst":
                h = f"btst_{'rn' if from_rn else 'imm'}_{locn}"
            elif has_rn and locn == "rn":
                h = f"{opn}_rn_from_{'rn' if from_rn else 'imm'}"
            else:
                h = f"{opn}_{locn}"
            nm = f"{opn}_{locn}_{'byrn' if from_rn else 'imm'}"
            form("C04", nm, f"c04::bitop($S, {{mode}}, c04::{OP}, c04::{LOC}, {'true' if from_rn else 'false'})", [h])

# control transfer (C05) and exceptions (C06)
CC = ["bra", "brn", "bhi", "bls", "bcc", "bcs", "bne", "beq", "bvc", "bvs", "bpl", "bmi", "bge", "blt", "bgt", "ble"]
form("C05", "bcc8", "c05::bcc($S, {mode}, false, util::PC_RAM)", ["bcc"] + [x + "8" for x in CC])
form("C05", "bcc16", "c05::bcc($S, {mode}, true, util::PC_RAM)", ["bcc"] + [x + "16" for x in CC])
form("C05", "bcc8_dram", "c05::bcc($S, {mode}, false, util::PC_DRAM)", ["bcc"] + [x + "8" for x in CC], tier="thorough")
form("C05", "bcc16_dram", "c05::bcc($S, {mode}, true, util::PC_DRAM)", ["bcc"] + [x + "16" for x in CC], tier="thorough")
form("C05", "jmp_ern", "c05::jmp($S, {mode}, c05::JMP_ERN)", ["jmp", "jmp_ern"])
form("C05", "jmp_abs", "c05::jmp($S, {mode}, c05::JMP_ABS)", ["jmp", "jmp_abs"])
form("C05", "jmp_indirect", "c05::jmp($S, {mode}, c05::JMP_IND)", ["jmp", "jmp_indirect"])
CALLS = [("bsr8", "BSR8", ["bsr_disp16"]), ("bsr16", "BSR16", ["bsr_disp24"]), ("jsr_ern", "JSR_ERN", ["jsr", "jsr_ern"]),
         ("jsr_abs", "JSR_ABS", ["jsr", "jsr_abs"]), ("jsr_indirect", "JSR_IND", ["jsr", "jsr_indirect"])]
for nm, K, keep in CALLS:
    form("C05", nm, f"c05::call($S, {{mode}}, c05::{K})", keep)
form("C05", "rts", "c05::rts($S, {mode})", ["rts"])
form("C06", "trapa", "c05::trapa($S, {mode})", ["trapa"], stubs=INSTR_STUBS + (STUB_MES2,))
form("C06", "rte", "c05::rte($S, {mode})", ["rte"])


# STC.W memory forms (C08: address formation only)
for K, nm, h in (("ST_ERN", "ern", "stc_w_ern"), ("ST_D16", "disp16", "stc_w_disp16"), ("ST_D24", "disp24", "stc_w_disp24"),
                 ("ST_DEC", "predec", "stc_w_inc_ern"), ("ST_A16", "abs16", "stc_abs16"), ("ST_A24", "abs24", "stc_abs24")):
    form("C08", f"stc_w_{nm}", f"c08::stc_w($S, {{mode}}, c08::{K})", [h])


C20_QUICK_ALU = {"add_b_rn", "sub_b_rn", "cmp_b_rn", "addx_rn", "neg_b", "inc_b", "dec_b", "adds1", "subs1", "not_b", "extu_w", "shal_b", "shar_b", "shll_b",
                 "shlr_b", "rotl_b", "rotr_b", "rotxl_b", "rotxr_b", "and_b_rn", "or_b_rn", "xor_b_rn", "and_l_rn", "or_l_rn", "xor_l_rn",
                 "mulxu_b", "mulxu_w", "divxu_b", "divxu_w_divisor4bit"}


def c20_quick(prop, fname):
    if prop in ("C01", "C05", "C06", "C08"):
        return True
    if prop == "C04":
        return "_rn_" not in fname  # memory forms; register forms are I=1 only
    return fname in C20_QUICK_ALU or fname.endswith("_w_imm") or fname.endswith("_l_imm")


def register_forms():
    for prop, fname, call, keep, kw in FORMS:
        kw1 = {k: v for k, v in kw.items() if k != "no_cyc"}
        kw1.setdefault("stubs", INSTR_STUBS)
        add(prop, f"{prop.lower()}_{fname}", call.format(mode="ih::MODE_SEM"), keep=keep, **kw1)
        if not kw.get("no_cyc"):
            kw2 = {k: v for k, v in kw.items() if k != "no_cyc"}
            kw2.setdefault("stubs", INSTR_STUBS)
            # The quick tier of C20 has to stay below 15 minutes: single-word register-only forms whose whole
            # charge is `calc_state(I, 1)` are represented by one form per source file there; every form is in
            # the thorough tier.
            if kw2.get("tier", "quick") == "quick" and not c20_quick(prop, fname):
                kw2["tier"] = "thorough"
            add("C20", f"c20_{fname}", call.format(mode="ih::MODE_CYC"), keep=keep, **kw2)


def for_property(prop, tier):
    out = []
    for s in SPECS:
        if s["prop"] != prop:
            continue
        if tier == "quick" and s["tier"] != "quick":
            continue
        out.append(s)
    return out


def properties():
    seen = []
    for s in SPECS:
        if s["prop"] not in seen:
            seen.append(s["prop"])
    return seen


register_forms()
for nm, K, keep in CALLS:
    add("C05", f"c05_{nm}_then_rts", f"c05::call_then_rts($S, c05::{K})", stubs=INSTR_STUBS, keep=keep + ["rts"])
add("C05", "c05_pc_disp8_lemma", "c05::pc_disp_lemma($S, false)")
add("C05", "c05_pc_disp16_lemma", "c05::pc_disp_lemma($S, true)")
add("C05", "c05_fetch_lemma", "c05::fetch_lemma($S)", stubs=(STUB_MEM,))
add("C06", "c06_interrupt", "c05::interrupt($S)", stubs=(STUB_MEM,))
add("C06", "c06_trapa_then_rte", "c05::entry_then_rte($S, true)", stubs=INSTR_STUBS + (STUB_MES2,), keep=["trapa", "rte"])
add("C06", "c06_interrupt_then_rte", "c05::entry_then_rte($S, false)", stubs=INSTR_STUBS, keep=["rte"])

add("C08", "c08_ea_pure", "c08::ea_pure($S)")
# C08 also re-decides the "which location is accessed" aspects of the memory-operand instructions
for prop, fname, call, keep, kw in FORMS:
    if kw.get("tier") == "thorough":
        continue
    if (prop == "C01" and any(k in fname for k in ("ern", "disp", "incdec", "abs"))) or fname in (
            "bset_ern_imm", "bclr_abs_imm", "btst_ern_byrn", "bld_abs_imm", "bst_ern_imm", "jmp_indirect", "jsr_indirect", "rts", "rte", "trapa", "bsr8"):
        kw3 = dict(kw)
        kw3.setdefault("stubs", INSTR_STUBS)
        add("C08", f"c08_{fname}", call.format(mode="ih::MODE_SEM"), keep=keep, **kw3)

add("C09", "c09_read_classification", "c09::read_classification($S)")
for g in range(6):
    add("C09", f"c09_write_outcome_g{g}", f"c09::write_outcome($S, {g})", unwind=9)
for g in range(6):
    if g == 1:
        add("C09", "c09_write_then_probe_g1_enumerated_probe", "c09::write_then_probe_concrete($S, 1)", unwind=9)
    else:
        add("C09", f"c09_write_then_probe_g{g}", f"c09::write_then_probe($S, {g})", unwind=9)
    add("C09", f"c09_word_long_composition_g{g}", f"c09::word_long_composition($S, {g})", unwind=9)

# C07: unimplemented instruction families; handlers the decoder currently routes them to are kept real
STC_FILE = ["stc_b", "stc_w_ern", "stc_w_disp16", "stc_w_disp24", "stc_w_inc_ern", "stc_abs16", "stc_abs24"]
MOVL_FILE = ["mov_l", "mov_l_rn", "mov_l_imm", "mov_l_ern", "mov_l_disp16", "mov_l_disp24", "mov_l_inc_or_dec", "mov_l_abs16", "mov_l_abs24"]
MOVB_FILE = ["mov_b", "mov_b_rn", "mov_b_imm", "mov_b_ern", "mov_b_disp16", "mov_b_disp24", "mov_b_inc_or_dec", "mov_b_abs8",
             "mov_b_abs_16_or_24", "mov_b_abs16", "mov_b_abs24"]
for fam, keep in (("NOP", []), ("SLEEP", []), ("LDC_IMM", []), ("LDC_RS", []), ("LOGIC_C", []), ("LDC_W", STC_FILE), ("SUBX", []),
                  ("DAA", MOVL_FILE), ("DAS", ["cmp_l_imm", "cmp_l_rn"]), ("EXTS", []), ("MULDIVXS", []), ("EEPMOV", []), ("MOVFPE", MOVB_FILE)):
    add("C07", f"c07_unimpl_{fam.lower()}", f"c07::unimplemented($S, c07::{fam})", stubs=INSTR_STUBS, keep=keep)

# C07, implemented side: "exactly its encoded length is consumed / executed as the manual's instruction" is decided form by form in
# C01-C06; representatives of every multi-word encoding family are re-decided under C07 so that `./check C07` alone reports a
# length / routing slip of an implemented instruction (seed C07c: BRN d:16 no longer fetching its displacement word)
C07_IMPL = {"bcc8", "bcc16", "jmp_abs", "jmp_indirect", "bsr8", "bsr16", "jsr_abs", "rts", "mov_w_imm", "mov_l_imm", "mov_b_abs16_load", "mov_l_abs24_store",
            "mov_w_disp24_load", "mov_l_disp16_store", "mov_b_disp16_load", "add_l_imm", "cmp_w_imm", "and_l_imm", "or_w_imm", "xor_l_rn", "bset_abs_imm", "btst_ern_byrn",
            "stc_w_disp24", "stc_w_abs24", "trapa"}
for prop, fname, call, keep, kw in FORMS:
    if fname in C07_IMPL and kw.get("tier") != "thorough":
        kw4 = dict(kw)
        kw4.setdefault("stubs", INSTR_STUBS)
        add("C07", f"c07_impl_{fname}", call.format(mode="ih::MODE_SEM"), keep=keep, **kw4)

for n in range(4):
    add("C10", f"c10_boundary_step_q{n}", f"c10::boundary_step($S, {n})", stubs=(STUB_MEM,))
add("C10", "c10_request_appends_9", "c10::request_appends($S, 9)", tier="thorough")
add("C10", "c10_request_appends_5", "c10::request_appends($S, 5)")

STUB_STDOUT = [("crate::cpu::Cpu::send_stdout_message", "crate::harness::c14::ghost_send_stdout")]
add("C14", "c14_sys_write", "c14::sys_write($S, c14::SYM, c14::SYM)", stubs=INSTR_STUBS + (STUB_STDOUT,), keep=["trapa"], unwind=6, timeout=1500, mem_gb=24,
    note="length 0..=4 and argument block address symbolic")
# length and argument-block address as call-site constants: the emulator's read of `length` then folds to a
# constant, so copy loops and allocations sized by it stay concrete whatever shape the copy code takes
add("C14", "c14_sys_write_len4_argram", "c14::sys_write($S, 4, 0xffe000)", stubs=INSTR_STUBS + (STUB_STDOUT,), keep=["trapa"], unwind=6, timeout=1500, mem_gb=24)
add("C14", "c14_sys_write_len1_argdram", "c14::sys_write($S, 1, 0x500000)", stubs=INSTR_STUBS + (STUB_STDOUT,), keep=["trapa"], unwind=6, timeout=1500, mem_gb=24)
for n in (6, 8):
    add("C14", f"c14_sys_write_len{n}_argram", f"c14::sys_write($S, {n}, 0xffe000)", stubs=INSTR_STUBS + (STUB_STDOUT,), keep=["trapa"], unwind=10, timeout=3000, mem_gb=24,
        tier="thorough", note="length and argument block address are call-site constants")
add("C14", "c14_sys_set_handler", "c14::sys_set_handler($S)", stubs=INSTR_STUBS + (STUB_STDOUT,), keep=["trapa"], unwind=9, timeout=1500)
add("C14", "c14_sys_other_argblock", "c14::sys_other_argblock($S)", stubs=INSTR_STUBS + (STUB_STDOUT,), keep=["trapa"], unwind=6, timeout=1500, mem_gb=24)
add("C14", "c14_sys_other", "c14::sys_other($S)", stubs=INSTR_STUBS + (STUB_STDOUT,), keep=["trapa"], unwind=6, timeout=1500, mem_gb=24)

STUB_IOMSG = [("crate::bus::Bus::send_io_port_value", "crate::harness::c16::ghost_send_io_port_value")]
add("C16", "c16_single_op", "c16::single_op($S)", stubs=(STUB_IOMSG,))
for p in (1, 6, 11):
    add("C16", f"c16_history3_port{p}", f"c16::history3($S, {p}, 3)", stubs=(STUB_IOMSG,), unwind=8, tier="quick" if p != 6 else "thorough")
    add("C16", f"c16_history5_port{p}", f"c16::history3($S, {p}, 5)", stubs=(STUB_IOMSG,), unwind=8, tier="thorough")

STUB_IRQ = [("crate::cpu::interrupt_controller::InterruptController::request_interrupt", "crate::harness::c17::ghost_request_interrupt")]
add("C17", "c17_update_step_64", "c17::update_step($S, 64)", stubs=(STUB_IRQ,), unwind=42, timeout=1500)
add("C17", "c17_update_step_255", "c17::update_step($S, 255)", stubs=(STUB_IRQ,), unwind=42, timeout=3000, tier="thorough", note="36 min measured")
add("C17", "c17_tcr_write_keeps_phase", "c17::tcr_write_keeps_phase($S)")
add("C17", "c17_tcr_two_writes", "c17::tcr_two_writes($S)")
add("C17", "c17_partition_lemma", "c17::partition_lemma($S)")

# C15: one free harness per instruction source file (handlers of that file real, all others ghosted)
import gen as _gen
_by_file = {}
for _h, _i in _gen.parse_handlers().items():
    _by_file.setdefault(_i["file"], []).append(_h)
for _f, _hs in sorted(_by_file.items()):
    _n = _f[:-3]
    if _n == "trapa":
        add("C15", "c15_free_trapa", "c15::free_trapa($S)", stubs=INSTR_STUBS + (STUB_STDOUT,), keep=_hs, unwind=6, timeout=1500)
        continue
    add("C15", f"c15_free_{_n}", "c15::free_step($S, util::PC_RAM)", stubs=INSTR_STUBS, keep=_hs)
add("C15", "c15_free_dispatch_ram", "c15::free_step($S, util::PC_RAM)", stubs=INSTR_STUBS, keep=[])
add("C15", "c15_free_dispatch_dram_start", "c15::free_step($S, 0x400000)", stubs=INSTR_STUBS, keep=[])
add("C15", "c15_free_dispatch_vector", "c15::free_step($S, 0x000000)", stubs=INSTR_STUBS, keep=[])
add("C15", "c15_kfwitness_multiword_fetch_at_dram_end", "c15::free_step($S, 0x5ffffe)", stubs=INSTR_STUBS, keep=[], kf_witness="KF_C15_FETCH_UNWRAP")
add("C15", "c15_free_fetch_mapped", "c15::free_fetch($S, true)")
add("C15", "c15_kfwitness_fetch_unmapped", "c15::free_fetch($S, false)", kf_witness="KF_C15_FETCH_UNWRAP")
add("C15", "c15_free_interrupt", "c15::free_interrupt($S)", stubs=(STUB_MEM,))
add("C15", "c15_free_timer_update", "c15::free_timer_update($S)", stubs=(STUB_IRQ,), unwind=6, timeout=900)

STUB_RUN = [
    ("crate::cpu::Cpu::fetch", "crate::harness::c13::ghost_fetch"),
    ("crate::cpu::Cpu::exec", "crate::harness::c13::ghost_exec"),
    ("crate::cpu::Cpu::try_interrupt", "crate::harness::c13::ghost_try_interrupt"),
    ("crate::modules::ModuleManager::update_modules", "crate::harness::c13::ghost_update_modules"),
    ("crate::cpu::Cpu::send_message", "crate::harness::c13::ghost_send_message"),
    ("std::time::Instant::now", "crate::harness::c13::instant_now"),
    ("std::time::Instant::elapsed", "crate::harness::c13::instant_elapsed"),
    ("spin_sleep::SpinSleeper::sleep", "crate::harness::c13::spin_sleep"),
    ("<spin_sleep::SpinSleeper as std::default::Default>::default", "crate::harness::c13::sleeper_default"),
    ("crate::cpu::Cpu::print_er", "crate::harness::c13::ghost_print_er"),
]
add("C13", "c13_run_loop_85", "c13::run_loop($S, 85)", stubs=(STUB_RUN,), unwind=10, native=False, timeout=1200)
add("C13", "c13_run_loop_any_charge", "c13::run_loop($S, 255)", stubs=(STUB_RUN,), unwind=10, native=False, timeout=1200)

STUB_SOCK = [
    ("crate::socket::Socket::pop_messages", "crate::harness::c13::ghost_pop_messages"),
    ("crate::bus::Bus::write", "crate::harness::c13::ghost_bus_write"),
    ("crate::bus::Bus::write_port", "crate::harness::c13::ghost_write_port"),
]
for nm, ks in (("badcmd_store", ("L_CMD_EXTRA", "L_U8", "L_EMPTY")), ("badnum_port", ("L_U8_BAD", "L_IOPORT", "L_EMPTY")),
               ("pause_store", ("L_PAUSE", "L_U8", "L_EMPTY")), ("stop_port", ("L_STOP", "L_IOPORT", "L_EMPTY")),
               ("unknown_store", ("L_UNKNOWN", "L_U8", "L_EMPTY")), ("store_port", ("L_U8", "L_IOPORT", "L_EMPTY"))):
    add("PROBE18OLD", f"c18_two_lines_{nm}", "c13::socket_lines($S, " + ", ".join("c13::" + k for k in ks) + ", 2, 2)", stubs=(STUB_RUN, STUB_SOCK), unwind=14, native=False,
        timeout=1800, mem_gb=24)

STUB_ELF = [("crate::elf::read_elf", "crate::harness::c11::ghost_read_elf")]
for v in (0, 1):  # first formulation (memcpy'd image, symbolic argument string): never finished; kept for the record
    add("PROBE11OLD", f"c11_load_skeleton_v{v}", f"c11::load_skeleton($S, {v}, false)", stubs=(STUB_ELF,), unwind=44, timeout=5400, mem_gb=24, tier="quick" if v == 0 else "thorough")
    add("PROBE11OLD", f"c12_load_skeleton_v{v}", f"c11::load_skeleton($S, {v}, true)", stubs=(STUB_ELF,), unwind=44, timeout=5400, mem_gb=24)

STUB_LINEFX = [
    ("crate::bus::Bus::write", "crate::harness::c13::ghost_bus_write"),
    ("crate::bus::Bus::write_port", "crate::harness::c13::ghost_write_port"),
]
for which, wn in (("F_U8", "u8"), ("F_IOPORT", "ioport")):
    for nf in (3, 2, 4):
        add("C18", f"c18_parse_{wn}_fields{nf}", f"c18::parse_fields($S, c18::{which}, {nf})", stubs=(STUB_LINEFX,), unwind=11, timeout=1200)
STUB_SCRIPT = [("crate::socket::Socket::pop_messages", "crate::harness::c18::ghost_pop_script")]
C18_SCRIPTS = {
    "one_store": [["T_U8"]],
    "badcmd_then_store_one_batch": [["T_CMD3", "T_U8"]],
    "store_port_one_batch": [["T_U8", "T_PORT"]],
    "store_port_two_batches": [["T_U8"], ["T_PORT"]],
}
def _script(rows):
    rows = [r + ["0"] * (2 - len(r)) for r in rows] + [["0"] * 2] * (4 - len(rows))
    return "[" + ", ".join("[" + ", ".join(("c18::" + k) if k != "0" else "0" for k in r) + "]" for r in rows) + "]"
for nm, rows in C18_SCRIPTS.items():
    add("PROBE18", f"c18_run_{nm}", f"c18::run_script($S, {_script(rows)}, {len(rows)})", stubs=(STUB_RUN, STUB_LINEFX, STUB_SCRIPT), unwind=34, native=False, timeout=1800, mem_gb=20,
        cbmc_args=("--max-field-sensitivity-array-size", "256"))

STUB_ELF2 = [("crate::elf::read_elf", "crate::harness::c11::ghost_read_elf_bytewise"),
             ("crate::elf::string_table::parse_string_table_entry", "crate::harness::c11::ghost_string_entry")]
FS = ("--max-field-sensitivity-array-size", "1024")


def elf_load(prop, name, variant, env, args, memsz, stack, omit, tier="quick", exit_idx=2):
    add(prop, name, f"c11::load_skeleton_args($S, {variant}, {'true' if env else 'false'}, Some(c11::{args}), {memsz}, {stack:#x}, {omit}, {exit_idx})",
        stubs=(STUB_ELF2,), unwind=18, timeout=1500, mem_gb=24, cbmc_args=FS, tier=tier, ignore_dealloc=True,
        note="deallocation-precondition failures inside Kani's C library model are not counted (config-dependent CBMC artefact, DESIGN 3c)")


# C11: the real elf::load on concrete layout skeletons, symbolic segment bytes / GOT values / ___exit value
elf_load("C11", "c11_load_segments_got_v0", 0, False, "ARGS1", 16, 0x1003, 0)
elf_load("C11", "c11_load_segments_got_v1", 1, False, "ARGS1", 17, 0x1003, 0)
elf_load("C11", "c11_load_segments_got_v2_adjacent", 2, False, "ARGS1", 16, 0x1003, 0)
elf_load("C11", "c11_load_zero_fill_symbolic_probe_v0", 0, False, "ARGS1", 17, 0x1003, 3)
for nm, uw in (("header", 20), ("program_headers", 20), ("section_headers", 24)):
    add("C11", f"c11_parser_{nm}", f"c11p::{nm}($S)", unwind=uw, timeout=900)
# C12: entry / GOT pointer / exit address / stack pointer / argument block at enumerated (layout, sizes, argument string) points
elf_load("C12", "c12_load_env_args0_r13", 0, True, "ARGS0", 17, 0x1003, 0, exit_idx=0)
elf_load("C12", "c12_load_env_args1_r13", 0, True, "ARGS1", 17, 0x1003, 0)
elf_load("C12", "c12_load_env_args2_r22", 0, True, "ARGS2", 18, 0x1002, 0, exit_idx=1)
elf_load("C12", "c12_load_env_args0_v1_note_last", 1, True, "ARGS0", 16, 0x1003, 0)
elf_load("C12", "c12_load_env_args0_r31", 0, True, "ARGS0", 19, 0x1001, 0, tier="thorough")
elf_load("C12", "c12_load_env_args0_r11", 0, True, "ARGS0", 17, 0x1001, 0, tier="thorough")
elf_load("C12", "c12_load_env_args0_r00", 0, True, "ARGS0", 16, 0x1000, 0, tier="thorough")
elf_load("C12", "c12_load_env_args1_v2_adjacent", 2, True, "ARGS1", 18, 0x1003, 0, tier="thorough", exit_idx=0)
elf_load("C12", "c12_load_env_args1_v1", 1, True, "ARGS1", 18, 0x1003, 0, tier="thorough")
elf_load("C12", "c12_load_env_args2_nostack_section", 0, True, "ARGS2", 16, 0x1003, 1, tier="thorough")
add("C12", "c12_parser_symbols", "c11p::symbols($S)", unwind=12, timeout=900)
add("PROBE11", "c11_parser_string_entry", "c11p::string_entry($S)", unwind=10, timeout=900, mem_gb=24)

# C09 with SYMBOLIC write addresses (two writes + probe, every address outside DRAM): 23 min measured -> thorough tier only
add("C09", "c09_sym_write_probe_nodram", "c09::sym_write_probe($S, 0)", timeout=1600, mem_gb=20, tier="thorough",
    note="two byte writes at symbolic addresses + symbolic probe, DRAM accesses excluded (DRAM array shortened to one byte); 1403 s measured")
add("PROBE09", "c09_sym_write1_probe_nodram", "c09::sym_write_probe_n($S, 0, 1)", timeout=4800, mem_gb=20)
add("PROBE09", "c09_sym_write_probe_dram4k", "c09::sym_write_probe($S, 4096)", timeout=4800, mem_gb=20)
add("PROBEV", "probe_vec_str_fs", "c11::probe_vec_str($S)", unwind=18, cbmc_args=FS)
add("PROBEV", "probe_vec_str_plain", "c11::probe_vec_str($S)", unwind=18)

# feasibility probe, not part of any property: ./check PROBE
add("PROBE", "probe_c14_fold", "c14::probe_fold($S)", stubs=INSTR_STUBS, keep=["trapa"], unwind=6)
