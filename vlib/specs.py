"""Harness registry: which Kani proof harnesses exist, for which property, with which stubs/bounds.

Every entry becomes one `#[kani::proof]` wrapper in the generated crate (vlib/gen.py) that calls the
generic harness body `body` (a Rust path under crate::harness) with the Kani value source.
"""

STUB_MEM = [
    ("crate::bus::Bus::read", "crate::harness::mem::bus_read_stub"),
    ("crate::bus::Bus::write", "crate::harness::mem::bus_write_stub"),
]
STUB_CALC = [("crate::cpu::Cpu::calc_state_with_addr", "crate::harness::ghost::ghost_calc_state_with_addr")]
STUB_FMT = [("std::fmt::format", "crate::harness::stubs::fmt_format")]
STUB_SEND = [("std::sync::mpsc::Sender::send", "crate::harness::stubs::mpsc_send")]

SPECS = []


def add(prop, name, body, *, stubs=(), keep=None, unwind=None, tier="quick", timeout=600, mem_gb=12, note=""):
    st = list(STUB_FMT) + list(STUB_SEND)
    for s in stubs:
        st.extend(s)
    SPECS.append(
        dict(
            prop=prop,
            name=name,
            body="crate::harness::" + body,
            stubs=st,
            ghost_siblings=keep is not None,
            keep=list(keep or []),
            unwind=unwind,
            tier=tier,
            timeout=timeout,
            mem_gb=mem_gb,
            note=note,
        )
    )


# ------------------------------------------------------------------ C19
add("C19", "c19_cost_matches_reference", "c19::cost_matches_reference")
add("C19", "c19_calc_state_uses_operating_pc", "c19::calc_state_uses_operating_pc")
add("C19", "c19_other_areas_do_not_matter", "c19::other_areas_do_not_matter")


def for_property(prop, tier):
    out = []
    for s in SPECS:
        if s["prop"] != prop:
            continue
        if tier == "quick" and s["tier"] != "quick":
            continue
        out.append(s)
    return out


def properties():
    seen = []
    for s in SPECS:
        if s["prop"] not in seen:
            seen.append(s["prop"])
    return seen
