#!/bin/bash
# background: own-mutant test of the C18 unit check (radix slip in parse_u8), then the C09 symbolic-write probes
VERIF_REPO=/tmp/mut_c18 ./check C18 > /tmp/mut_c18.out 2>&1; tail -3 /tmp/mut_c18.out
VERIF_NO_PLAYBACK=1 ./check PROBE09 > /tmp/probe09b.out 2>&1; tail -5 /tmp/probe09b.out
