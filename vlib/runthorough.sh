#!/bin/bash
cd /verif
for p in C16 C10 C17 C14 C05 C01 C02 C20; do
  s=$(date +%s)
  ./check $p --tier thorough > /tmp/official_thorough_$p.out 2>&1
  echo "$p exit=$? wall=$(( $(date +%s) - s ))s"
done
