#!/usr/bin/env python3
"""seedtest.py <worktree> <seed-id> <PROP> [--only PATTERN] [--tier quick]

Development-time tool (not part of any registered check): confirms a seeded change produced by an
independent sub-agent and runs the property's check against it.
  1. in the scratch worktree (bug + demo applied): existing suite passes with the bug, demo fails with the
     bug, demo passes with the bug reverted;
  2. applies patch.diff to /repo, runs ./check <PROP>, restores /repo (git checkout -- .);
  3. stores patch.diff, demo.diff and meta.json under /verif/seeded/<seed-id>/.
"""
import json
import os
import re
import shutil
import subprocess
import sys
import time

VERIF = os.path.dirname(os.path.dirname(os.path.abspath(__file__)))


def sh(cmd, cwd=None, timeout=3600):
    p = subprocess.run(cmd, shell=True, cwd=cwd, stdout=subprocess.PIPE, stderr=subprocess.STDOUT, text=True, timeout=timeout)
    return p.returncode, p.stdout


def test_summary(out):
    m = re.findall(r"test result: (\w+)\. (\d+) passed; (\d+) failed", out)
    return m[-1] if m else None


def main():
    wt, sid, prop = sys.argv[1:4]
    only = None
    tier = "quick"
    if "--only" in sys.argv:
        only = sys.argv[sys.argv.index("--only") + 1]
    if "--tier" in sys.argv:
        tier = sys.argv[sys.argv.index("--tier") + 1]
    meta = {"seed": sid, "property": prop, "worktree_base": sh("git rev-parse HEAD", wt)[1].strip()}
    patch = os.path.join(wt, "patch.diff")
    demo = os.path.join(wt, "demo.diff")
    # -- 1. confirm in the worktree
    sh("git reset -q && git checkout -- . && git clean -fdq src", wt)
    rc, out = sh(f"git apply {patch}", wt)
    assert rc == 0, out
    rc, out = sh("cargo test --offline 2>&1 | tail -5", wt)
    meta["suite_with_bug"] = test_summary(out)
    rc, out = sh(f"git apply {demo}", wt)
    assert rc == 0, out
    rc, out = sh("cargo test --offline seed_demo 2>&1 | tail -30", wt)
    meta["demo_with_bug"] = test_summary(out)
    sh(f"git apply -R {patch}", wt)
    rc, out = sh("cargo test --offline seed_demo 2>&1 | tail -8", wt)
    meta["demo_without_bug"] = test_summary(out)
    sh(f"git apply {patch}", wt)
    ok_seed = (meta["suite_with_bug"] and meta["suite_with_bug"][0] == "ok" and int(meta["suite_with_bug"][1]) >= 226
               and meta["demo_with_bug"] and meta["demo_with_bug"][0] != "ok"
               and meta["demo_without_bug"] and meta["demo_without_bug"][0] == "ok")
    meta["seed_confirmed"] = bool(ok_seed)
    print("seed confirmation:", meta)
    # -- 2. run the check against it
    cmd = f"./check {prop} --tier {tier}" + (f" --only {only}" if only else "")
    t0 = time.time()
    if "--isolated" in sys.argv:
        # development mode for running several seeds while other work is in flight: the check (from this
        # copy of /verif, its own generated crate) is pointed at the scratch worktree with only the
        # regression applied (VERIF_REPO) instead of patching /repo itself
        sh("git reset -q && git checkout -- . && git clean -fdq src", wt)
        rc, out = sh(f"git apply {patch}", wt)
        assert rc == 0, out
        meta["ran_against"] = "scratch worktree with patch.diff applied (VERIF_REPO=<worktree>), /repo untouched"
        rc, out = sh(f"VERIF_REPO={wt} {cmd}", VERIF, timeout=7200)
        sh(f"git apply {demo}", wt)
    else:
        rc, out = sh("git status --porcelain", "/repo")
        assert out.strip() == "", "/repo not clean: " + out
        rc, out = sh(f"git apply {patch}", "/repo")
        assert rc == 0, "patch does not apply to /repo: " + out
        try:
            rc, out = sh(cmd, VERIF, timeout=7200)
        finally:
            sh("git checkout -- .", "/repo")
    meta["check_cmd"] = cmd
    meta["check_exit"] = rc
    meta["check_wall_s"] = round(time.time() - t0)
    meta["check_violation_lines"] = [l[:400] for l in out.splitlines() if l.startswith("VIOLATION")]
    meta["check_other_lines"] = [l[:300] for l in out.splitlines() if l.startswith("INCONCLUSIVE") or l.startswith("KNOWN-FINDING")][:10]
    meta["detected"] = rc == 1 and bool(meta["check_violation_lines"])
    print(out[-3000:])
    # -- 3. store
    d = os.path.join(os.environ.get("SEED_OUT", VERIF), "seeded", sid)
    os.makedirs(d, exist_ok=True)
    shutil.copy(patch, os.path.join(d, "patch.diff"))
    shutil.copy(demo, os.path.join(d, "demo.diff"))
    rd = os.path.join(wt, "AGENT_README.md")
    if not os.path.exists(rd):
        rd = os.path.join(wt, "README.md")
    if os.path.exists(rd):
        shutil.copy(rd, os.path.join(d, "AGENT_README.md"))
    json.dump(meta, open(os.path.join(d, "meta.json"), "w"), indent=1)
    print("DETECTED" if meta["detected"] else "MISSED", sid, prop, "exit", rc)


if __name__ == "__main__":
    main()
