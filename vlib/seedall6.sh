#!/bin/bash
export SEED_OUT=/verif
run() { python3 vlib/seedtest.py /tmp/seed_$1 $2 $3 --isolated ${4:+--only $4} > /tmp/seedrun_$2.out 2>&1; tail -1 /tmp/seedrun_$2.out; }
run C16c C16c-stale-announce-cache C16
