#!/usr/bin/env python3
"""Fills section 6 of DESIGN.md from seeded/*/meta.json (development-time tool)."""
import json, os, re, glob
V = os.path.dirname(os.path.dirname(os.path.abspath(__file__)))
rows = ["| seed | property | what the change needs to manifest | suite with change | agent's demo (with / without) | check command | result |", "|---|---|---|---|---|---|---|"]
for d in sorted(glob.glob(os.path.join(V, "seeded", "*"))):
    mp = os.path.join(d, "meta.json")
    if not os.path.exists(mp):
        continue
    m = json.load(open(mp))
    needs = m.get("needs", "")
    harn = sorted({re.search(r"harness=(\S+)", l).group(1) for l in m.get("check_violation_lines", []) if re.search(r"harness=(\S+)", l)})
    res = ("caught: " + ", ".join(harn[:4])) if m.get("detected") else "NOT caught (exit %s)" % m.get("check_exit")
    rows.append(f"| {m['seed']} | {m['property']} | {needs} | {m.get('suite_with_bug')} | {m.get('demo_with_bug')} / {m.get('demo_without_bug')} | `{m.get('check_cmd')}` ({m.get('check_wall_s')} s) | {res} |")
p = os.path.join(V, "DESIGN.md")
s = open(p).read()
tbl = "\n".join(rows)
if "SEED_TABLE_PLACEHOLDER" in s:
    s = s.replace("SEED_TABLE_PLACEHOLDER", "<!-- seed table begin -->\n" + tbl + "\n<!-- seed table end -->")
else:
    s = re.sub(r"<!-- seed table begin -->.*<!-- seed table end -->", "<!-- seed table begin -->\n" + tbl.replace("\\", "\\\\") + "\n<!-- seed table end -->", s, flags=re.S)
open(p, "w").write(s)
print(tbl)
